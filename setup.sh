#!/bin/bash
# Offline setup: the checks run with /venv/bin/python, which already has the repository's
# dependencies; make sure hypothesis is importable there (install from the offline wheelhouse
# otherwise) and that jaxtyping resolves to /repo.
set -e
cd "$(dirname "${BASH_SOURCE[0]}")"
if ! /venv/bin/python -c "import hypothesis" 2>/dev/null; then
  /venv/bin/pip install --no-index --find-links /opt/veriftools/wheels hypothesis
fi
# atheris (C14 fuzz engine) for /venv's Python 3.12 goes into /verif/.deps (ignored by git)
if ! PYTHONPATH=.deps /venv/bin/python -c "import atheris" 2>/dev/null; then
  /venv/bin/pip install -q --no-index --find-links /opt/veriftools/wheels --target .deps atheris || echo "atheris not installable: C14 engine 3 will be skipped"
fi
/venv/bin/python -c "import hypothesis, numpy, jaxtyping, sys; print('hypothesis', hypothesis.__version__, 'jaxtyping from', jaxtyping.__file__)"
mkdir -p evidence replays .work
