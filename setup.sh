#!/bin/bash
# Offline setup: the checks run with /venv/bin/python, which already has the repository's
# dependencies; make sure hypothesis is importable there (install from the offline wheelhouse
# otherwise) and that jaxtyping resolves to /repo.
set -e
cd "$(dirname "${BASH_SOURCE[0]}")"
if ! /venv/bin/python -c "import hypothesis" 2>/dev/null; then
  /venv/bin/pip install --no-index --find-links /opt/veriftools/wheels hypothesis
fi
/venv/bin/python -c "import hypothesis, numpy, jaxtyping, sys; print('hypothesis', hypothesis.__version__, 'jaxtyping from', jaxtyping.__file__)"
mkdir -p evidence replays .work
