#!/bin/bash
# usage: tools/sweep.sh <tier> <seed>...   -- runs every claimed check at the given seeds, prints one line per run
tier=$1; shift
cd "$(dirname "$0")/.."
for s in "$@"; do
  for i in $(seq -w 1 20); do
    out=$(VERIF_SEED=$s ./check C$i --tier $tier 2>/dev/null); rc=$?
    echo "seed=$s C$i rc=$rc $(echo "$out" | grep -E '^property=' | tail -1)"
    if [ $rc -ne 0 ]; then echo "$out" | grep -E 'VIOLATION|clause=|HARNESS' | head -5 | cut -c1-400; fi
  done
done
