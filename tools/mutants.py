#!/venv/bin/python
"""Sensitivity self-test: apply one hand-written mutant at a time to a scratch copy of the
repository (under /tmp, removed afterwards) and run a check's quick tier against it through
VF_REPO.  A mutant that survives means the check is too thin.

usage: tools/mutants.py [--prop C01] [--name substr] [--tier quick] [--list]
Mutants are (name, props, file, old, new).  Each still imports; most pass the 267 tests."""
import argparse
import os
import shutil
import subprocess
import sys
import tempfile

VERIF = os.path.dirname(os.path.dirname(os.path.abspath(__file__)))
sys.path.insert(0, VERIF)
from tools.mutant_list import MUTANTS  # noqa: E402


def main():
    ap = argparse.ArgumentParser()
    ap.add_argument("--prop")
    ap.add_argument("--name")
    ap.add_argument("--tier", default="quick")
    ap.add_argument("--list", action="store_true")
    ap.add_argument("--scale", default=None)
    ap.add_argument("--jobs", type=int, default=1)
    args = ap.parse_args()
    results = []
    todo = []
    for name, props, file, old, new in MUTANTS:
        if args.name and args.name not in name:
            continue
        for prop in props:
            if args.prop and prop != args.prop:
                continue
            if args.list:
                print(prop, name)
                continue
            todo.append((name, prop, file, old, new))

    def one(item):
        name, prop, file, old, new = item
        if True:
            d = tempfile.mkdtemp(prefix="vf-mut-")
            try:
                shutil.copytree("/repo/jaxtyping", os.path.join(d, "jaxtyping"))
                p = os.path.join(d, "jaxtyping", file)
                src = open(p).read()
                if src.count(old) < 1:
                    print(f"{prop} {name}: PATTERN-NOT-FOUND")
                    results.append((prop, name, "nopattern"))
                    return
                open(p, "w").write(src.replace(old, new, 1))
                env = dict(os.environ, VF_REPO=d)
                if args.scale:
                    env["VF_SCALE"] = args.scale
                r = subprocess.run([os.path.join(VERIF, "check"), prop, "--tier", args.tier], env=env,
                                   capture_output=True, text=True)
                status = {0: "SURVIVED", 1: "killed", 2: "harness-error"}.get(r.returncode, str(r.returncode))
                line = [l for l in r.stdout.splitlines() if l.startswith("  clause")][:1]
                print(f"{prop} {name}: {status} {line[0][:160] if line else ''}")
                if r.returncode == 2:
                    print("   ", (r.stdout[-400:] + r.stderr[-300:]).replace("\n", " | ")[-500:])
                results.append((prop, name, status))
            finally:
                shutil.rmtree(d, ignore_errors=True)

    if args.jobs > 1:
        from concurrent.futures import ThreadPoolExecutor

        with ThreadPoolExecutor(args.jobs) as ex:
            list(ex.map(one, todo))
    else:
        for item in todo:
            one(item)
    # replays written while testing mutants are not findings on the real tree
    subprocess.run(["git", "-C", VERIF, "clean", "-fdq", "replays"], check=False)
    subprocess.run(["git", "-C", VERIF, "checkout", "-q", "--", "evidence"], check=False, capture_output=True)
    bad = [r for r in results if r[2] != "killed"]
    print(f"{len(results) - len(bad)}/{len(results)} killed")
    if not args.name and not args.list:
        import json

        path = os.path.join(VERIF, "tools", "MUTANTS-RESULTS.json")
        old = json.load(open(path)) if os.path.exists(path) else {}
        for prop, name, status in results:
            old[f"{prop}:{name}"] = status
        json.dump(old, open(path, "w"), indent=1, sort_keys=True)


if __name__ == "__main__":
    main()
