#!/venv/bin/python
"""Confirm and evaluate seeded property-breaking changes produced by sub-agents.

  tools/seeded.py verify C01 m1     # in the scratch worktree /tmp/wt/C01: demo passes clean, fails patched; baseline tests pass patched
  tools/seeded.py keep   C01 m1     # copy patch.diff, demo.py, meta.json to /verif/seeded/C01-m1/
  tools/seeded.py run    C01-m1 [--props C01,C04] [--tier quick]   # run checks against HEAD+patch (scratch worktree, VF_REPO)
  tools/seeded.py runall [--tier quick]                             # every kept change against the property it breaks
"""
import json
import os
import shutil
import subprocess
import sys
import tempfile
import xml.etree.ElementTree as ET

VERIF = os.path.dirname(os.path.dirname(os.path.abspath(__file__)))
PY = "/venv/bin/python"


def sh(cmd, **kw):
    return subprocess.run(cmd, shell=isinstance(cmd, str), capture_output=True, text=True, **kw)


def baseline(tree):
    out = tempfile.mktemp(suffix=".xml")
    env = dict(os.environ, PYTHONPATH=tree, PYTHONDONTWRITEBYTECODE="1")
    sh([PY, "-m", "pytest", "-q", "-p", "no:cacheprovider", "--timeout=900", "--continue-on-collection-errors",
        f"--junitxml={out}", "test"], cwd=tree, env=env)
    base = set(json.load(open("/root/.vp/BASELINE.json"))["stable_pass"])
    passed = set()
    try:
        for tc in ET.parse(out).getroot().iter("testcase"):
            if not any(c.tag in ("failure", "error", "skipped") for c in tc):
                passed.add(tc.get("classname") + "::" + tc.get("name"))
    finally:
        if os.path.exists(out):
            os.remove(out)
    return sorted(base - passed)


def demo(tree, demo_path):
    env = dict(os.environ, PYTHONPATH=tree, PYTHONDONTWRITEBYTECODE="1")
    r = sh([PY, "-W", "ignore", demo_path], env=env, cwd=os.path.dirname(demo_path))
    return r.returncode, (r.stdout + r.stderr)[-600:]


ROUND = {"suffix": "", "tag": ""}


def verify(pid, m):
    wt = f"/tmp/wt/{pid}"
    src = f"/tmp/wt/{pid}-out{ROUND['suffix']}/{m}"
    sh(f"git -C {wt} checkout -q -- . && git -C {wt} clean -fdq")
    # patches were made against an earlier HEAD of /repo only if the worktree lags; keep the worktree at /repo's HEAD
    head = sh("git -C /repo rev-parse HEAD").stdout.strip()
    sh(f"git -C {wt} checkout -q --detach {head}")
    rc0, out0 = demo(wt, f"{src}/demo.py")
    r = sh(f"git -C {wt} apply {src}/patch.diff")
    if r.returncode != 0:
        print("patch does not apply:", r.stderr)
        return False
    rc1, out1 = demo(wt, f"{src}/demo.py")
    missing = baseline(wt)
    sh(f"git -C {wt} checkout -q -- . && git -C {wt} clean -fdq")
    ok = rc0 == 0 and rc1 != 0 and not missing
    print(f"{pid} {m}: demo clean rc={rc0}, demo patched rc={rc1}, baseline missing={missing[:5]} -> {'CONFIRMED' if ok else 'REJECTED'}")
    if rc0 != 0:
        print("  clean output:", out0)
    return ok, {"demo_clean_rc": rc0, "demo_patched_rc": rc1, "demo_patched_output": out1[-300:], "baseline_missing": missing}


def keep(pid, m, info):
    src = f"/tmp/wt/{pid}-out{ROUND['suffix']}/{m}"
    dst = os.path.join(VERIF, "seeded", f"{pid}-{ROUND['tag']}{m}")
    os.makedirs(dst, exist_ok=True)
    for f in ("patch.diff", "demo.py"):
        shutil.copy(os.path.join(src, f), os.path.join(dst, f))
    try:
        meta = json.load(open(os.path.join(src, "meta.json")))
    except Exception:
        meta = {}
    meta["breaks_property"] = pid
    meta["confirmed"] = info
    meta["confirmed_how"] = ("scratch worktree at /repo HEAD: demo.py exits 0 clean and non-zero with patch.diff applied; "
                             "baseline pytest command with the patch applied still passes all 267 stable tests")
    meta["base_commit"] = sh("git -C /repo rev-parse HEAD").stdout.strip()
    json.dump(meta, open(os.path.join(dst, "meta.json"), "w"), indent=1)
    print("kept", dst)


def run(name, props=None, tier="quick", scale=None):
    d = os.path.join(VERIF, "seeded", name)
    meta = json.load(open(os.path.join(d, "meta.json")))
    props = props or [meta["breaks_property"]]
    wt = tempfile.mkdtemp(prefix="vf-seed-")
    os.rmdir(wt)
    sh(f"git -C /repo worktree add -q --detach {wt} HEAD")
    res = {}
    try:
        r = sh(f"git -C {wt} apply {d}/patch.diff")
        if r.returncode != 0:
            print(name, "patch does not apply to HEAD:", r.stderr[:300])
            return {"apply": "failed"}
        for p in props:
            env = dict(os.environ, VF_REPO=wt)
            if scale:
                env["VF_SCALE"] = scale
            r = sh([os.path.join(VERIF, "check"), p, "--tier", tier], env=env)
            status = {0: "MISSED", 1: "caught", 2: "harness-error"}.get(r.returncode, str(r.returncode))
            line = [l for l in r.stdout.splitlines() if l.startswith("  clause")][:1]
            print(f"{name} vs {p} [{tier}]: {status} {line[0][:170] if line else ''}")
            if r.returncode == 2:
                print("   ", (r.stdout[-400:] + r.stderr[-300:]).replace("\n", " | ")[-500:])
            res[p] = status
    finally:
        sh(f"git -C /repo worktree remove --force {wt}")
        sh(["git", "-C", VERIF, "clean", "-fdq", "replays"])
        sh(["git", "-C", VERIF, "checkout", "-q", "--", "evidence"])
    return res


def main():
    a = sys.argv[1:]
    if "--round" in a:
        r = a[a.index("--round") + 1]
        ROUND["suffix"], ROUND["tag"] = r, f"r{r}"
    if a[0] == "verify":
        ok, info = verify(a[1], a[2])
        if ok and "--keep" in a:
            keep(a[1], a[2], info)
    elif a[0] == "run":
        props = None
        tier = "quick"
        scale = None
        for i, x in enumerate(a):
            if x == "--props":
                props = a[i + 1].split(",")
            if x == "--tier":
                tier = a[i + 1]
            if x == "--scale":
                scale = a[i + 1]
        run(a[1], props, tier, scale)
    elif a[0] == "runall":
        tier = a[a.index("--tier") + 1] if "--tier" in a else "quick"
        out = {}
        targets = json.load(open(os.path.join(VERIF, "tools", "seed_targets.json")))
        only = a[a.index("--only") + 1] if "--only" in a else None
        names = [n for n in sorted(os.listdir(os.path.join(VERIF, "seeded")))
                 if (not only or only in n) and os.path.exists(os.path.join(VERIF, "seeded", n, "meta.json"))]
        # changes that a later `fix:` commit made harmless (their patch no longer applies or no longer breaks the property) are kept for the
        # record but not run
        retired = [n for n in names if json.load(open(os.path.join(VERIF, "seeded", n, "meta.json"))).get("retired")]
        names = [n for n in names if n not in retired]
        for n in retired:
            out[n] = {"-": "retired"}
        jobs = int(a[a.index("--jobs") + 1]) if "--jobs" in a else 1
        if jobs > 1:
            # every run has its own scratch worktree; checks only share /verif's evidence/replays files, which runs do not read
            from concurrent.futures import ThreadPoolExecutor

            with ThreadPoolExecutor(jobs) as ex:
                for name, res in zip(names, ex.map(lambda n: run(n, targets.get(n), tier), names)):
                    out[name] = res
        else:
            for name in names:
                out[name] = run(name, targets.get(name), tier)
        rp = os.path.join(VERIF, "seeded", f"RESULTS-{tier}.json")
        if only and os.path.exists(rp):
            out = dict(json.load(open(rp)), **out)  # a partial run updates the recorded results, it does not replace them
        json.dump(out, open(rp, "w"), indent=1, sort_keys=True)
        live = {k: v for k, v in out.items() if "retired" not in v.values()}
        missed = {k: v for k, v in live.items() if "caught" not in v.values()}
        print(f"{len(live) - len(missed)}/{len(live)} seeded changes caught ({len(out) - len(live)} retired); not caught: {sorted(missed)}")


if __name__ == "__main__":
    main()
