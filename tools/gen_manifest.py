#!/venv/bin/python
"""Writes MANIFEST.json from the table below (kept valid at all times) and validates it."""
import json
import os
import sys

VERIF = os.path.dirname(os.path.dirname(os.path.abspath(__file__)))
sys.path.insert(0, VERIF)
from tools.manifest_table import CHECKS, NOT_APPLICABLE  # noqa: E402

BASELINE = ("cd /repo && env -u PATRICK_KIDGER_JAXTYPING_VERIF /venv/bin/python -m pytest -ra -q -p no:cacheprovider "
            "--timeout=900 --continue-on-collection-errors")

manifest = {
    "version": 1,
    "setup_cmd": "./setup.sh",
    "hooks": {
        "guard": "PATRICK_KIDGER_JAXTYPING_VERIF",
        "enable": "no source hooks are needed: every check observes jaxtyping through its public surface "
                  "(isinstance, print_bindings, exceptions, inspect, spy typecheckers); /venv imports jaxtyping "
                  "editable from /repo's working tree, so nothing is built",
        "baseline_off_cmd": BASELINE,
        "source_commits": [],
        "add_only": True,
    },
    "engines": [
        {"name": "vf", "path": "vf/", "serves_properties": [c["property_id"] for c in CHECKS],
         "kind_free_text": "Hypothesis 6.168 property-based tests (seeded by VERIF_SEED, sharded over processes), "
                           "reference models in vf/models, complete enumeration for finite spaces, atheris fuzz target for C14"},
    ],
    "checks": [],
    "not_applicable": NOT_APPLICABLE,
    "notes": "Single entry point ./check <ID> --tier quick|thorough; --replay <file> re-executes a saved case without "
             "Hypothesis. Exit 0 held / 1 VIOLATION / 2 harness error. known_findings.json lists recorded and fixed findings.",
}
for c in CHECKS:
    pid = c["property_id"]
    manifest["checks"].append({
        "property_id": pid,
        "quick_cmd": f"./check {pid} --tier quick",
        "thorough_cmd": f"./check {pid} --tier thorough",
        "evidence_file": f"evidence/{pid}.json",
        "replay_cmd_template": f"./check {pid} --replay {{path}}",
        "engine": "vf",
        "level_claimed": {"category": c["level"], "text": c["text"], "design_ref": c["design_ref"]},
        "level_note": c["note"],
        "technique": c["technique"],
    })
with open(os.path.join(VERIF, "MANIFEST.json"), "w") as f:
    json.dump(manifest, f, indent=1)
    f.write("\n")
try:
    import jsonschema
    jsonschema.validate(manifest, json.load(open("/root/.vp/MANIFEST.schema.json")))
    print("MANIFEST.json valid;", len(CHECKS), "checks,", len(NOT_APPLICABLE), "not applicable")
except ImportError:
    print("jsonschema not importable here; wrote MANIFEST.json without validation")
