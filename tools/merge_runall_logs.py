#!/venv/bin/python
"""Rebuild seeded/RESULTS-quick.json from the logs of (partitioned, possibly interrupted) `tools/seeded.py runall` invocations.
usage: tools/merge_runall_logs.py LOG...   (later logs win; retired seeds are marked from their meta.json)"""
import json
import os
import re
import sys

VERIF = os.path.dirname(os.path.dirname(os.path.abspath(__file__)))
pat = re.compile(r"^(C\d\d-\S+) vs (C\d\d) \[quick\]: (caught|MISSED|harness-error)")
out = {}
for log in sys.argv[1:]:
    seen_in_log = set()
    for line in open(log, errors="replace"):
        m = pat.match(line)
        if m:
            name, prop, status = m.groups()
            if name not in seen_in_log:
                out[name] = {}
                seen_in_log.add(name)
            out[name][prop] = status
names = [n for n in sorted(os.listdir(os.path.join(VERIF, "seeded"))) if os.path.exists(os.path.join(VERIF, "seeded", n, "meta.json"))]
for n in names:
    if json.load(open(os.path.join(VERIF, "seeded", n, "meta.json"))).get("retired"):
        out[n] = {"-": "retired"}
missing = [n for n in names if n not in out]
json.dump({n: out[n] for n in names if n in out}, open(os.path.join(VERIF, "seeded", "RESULTS-quick.json"), "w"), indent=1, sort_keys=True)
live = {k: v for k, v in out.items() if "retired" not in v.values() and k in names}
missed = sorted(k for k, v in live.items() if "caught" not in v.values())
print(f"{len(live) - len(missed)}/{len(live)} caught ({len(out) - len(live)} retired); not caught: {missed}; without result: {missing}")
