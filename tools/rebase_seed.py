import sys, os, json, subprocess
sys.path.insert(0, '/verif/tools')
import seeded
name, wt = sys.argv[1], sys.argv[2]
d = f'/verif/seeded/{name}'
sh = seeded.sh
head = sh("git -C /repo rev-parse HEAD").stdout.strip()
sh(f"git -C {wt} checkout -q -- . && git -C {wt} clean -fdq && git -C {wt} checkout -q --detach {head}")
rc0, out0 = seeded.demo(wt, f"{d}/demo.py")
r = sh(f"cd {wt} && patch -p1 --fuzz=3 --no-backup-if-mismatch < {d}/patch.diff")
if r.returncode != 0:
    print(name, "REBASE FAILED", r.stdout[-300:]); sys.exit(1)
sh(f"cd {wt} && find . -name '*.orig' -delete")
newdiff = sh(f"git -C {wt} diff").stdout
rc1, out1 = seeded.demo(wt, f"{d}/demo.py")
missing = seeded.baseline(wt)
sh(f"git -C {wt} checkout -q -- . && git -C {wt} clean -fdq")
ok = rc0 == 0 and rc1 != 0 and not missing
print(name, "clean", rc0, "patched", rc1, "missing", missing[:3], "OK" if ok else "REJECTED")
if ok:
    open(f"{d}/patch.diff", "w").write(newdiff)
    meta = json.load(open(f"{d}/meta.json"))
    meta["base_commit"] = head
    meta["confirmed"] = {"demo_clean_rc": rc0, "demo_patched_rc": rc1, "demo_patched_output": out1[-300:], "baseline_missing": missing}
    meta["rebased"] = "patch context refreshed with patch --fuzz=3 after a later fix commit touched neighbouring lines; re-confirmed"
    json.dump(meta, open(f"{d}/meta.json", "w"), indent=1)
