#!/bin/bash
# Runs the repository's baseline test command (guard off) and compares with BASELINE.json's stable_pass list.
out=/tmp/vf-baseline-$$.xml
cd /repo && env -u PATRICK_KIDGER_JAXTYPING_VERIF /venv/bin/python -m pytest -ra -q -p no:cacheprovider --timeout=900 --continue-on-collection-errors --junitxml=$out > /tmp/vf-baseline-$$.log 2>&1
/venv/bin/python - "$out" <<'PY'
import json, sys, xml.etree.ElementTree as ET
base=set(json.load(open('/root/.vp/BASELINE.json'))['stable_pass'])
passed=set()
for tc in ET.parse(sys.argv[1]).getroot().iter('testcase'):
    if not any(c.tag in ('failure','error','skipped') for c in tc):
        passed.add(tc.get('classname')+'::'+tc.get('name'))
missing=sorted(base-passed)
print(f"baseline: {len(base&passed)}/{len(base)} stable tests pass; missing: {missing[:10]}")
sys.exit(1 if missing else 0)
PY
rc=$?
rm -f $out /tmp/vf-baseline-$$.log
exit $rc
