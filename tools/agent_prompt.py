#!/venv/bin/python
"""Prints the prompt given to a fresh sub-agent asked to seed a property-breaking change (nothing from /verif but the property text)."""
import json, sys
pid = sys.argv[1]
n = sys.argv[2] if len(sys.argv) > 2 else "2"
rec = next(json.loads(l) for l in open("/verif/properties.jsonl") if json.loads(l)["id"] == pid)
wt = f"/tmp/wt/{pid}"
print(f"""You are working on the Python library patrick-kidger/jaxtyping in a scratch git worktree at {wt}. Work ONLY inside {wt} and {wt}-out. Never read, list or modify /repo or /verif (they are off limits), and do not look for other people's notes elsewhere on the machine. There is no network.

Environment: use /venv/bin/python (3.12; numpy, jax, typeguard 2.13.3, beartype, pytest, hypothesis are installed). The installed jaxtyping points elsewhere, so ALWAYS run with PYTHONPATH={wt} so that your worktree's copy is imported; verify once with `cd {wt} && PYTHONPATH={wt} /venv/bin/python -c "import jaxtyping; print(jaxtyping.__file__)"` (must print a path under {wt}). Also set PYTHONDONTWRITEBYTECODE=1.
Test suite: `cd {wt} && PYTHONPATH={wt} /venv/bin/python -m pytest -q -p no:cacheprovider --timeout=900 test` (about 1 minute). On the unmodified tree exactly 6 tests fail (test_decorator::test_mlx[*] x4, test_generators::test_generators_return_no_annotations[False-beartype], test_generators::test_generators_simple[False-beartype]) and 267 pass; that is the baseline.

Here is a semantic property that this library is supposed to satisfy (JSON record; 'anchors' points at the code meant to make it hold):

{json.dumps(rec, indent=1)}

TASK. Produce {n} DIFFERENT changes to the library source (files under jaxtyping/) each of which BREAKS this property, while the package still imports and the existing test suite still passes exactly as at baseline (the same 267 tests pass). Think of realistic regressions: a plausible refactoring mistake, an 'optimisation', a mishandled edge case, a wrong condition. Strongly prefer changes that need something SPECIFIC to manifest -- an unusual input or combination of inputs, a multi-step sequence of operations, a fault/exception at a particular point, a particular thread interleaving, a second run over a cache, or two cooperating sites that each look fine alone -- and NOT changes that ordinary use of the library would expose at once. The {n} changes should have different root causes and touch different mechanisms where possible.

For each change i (1..{n}) create the directory {wt}-out/m<i>/ containing:
  - patch.diff : `git diff` against HEAD of the worktree (must apply cleanly with `git apply` on a clean checkout of HEAD);
  - demo.py    : a small standalone program that demonstrates the breakage: run as `PYTHONPATH=<tree> /venv/bin/python demo.py` it must print PASS and exit 0 on the unmodified tree, and print FAIL with a short explanation and exit 1 with the patch applied. It must be deterministic (for thread interleavings, force the interleaving with events/barriers or a trace hook). It may use numpy, jax, typeguard, beartype, the standard library;
  - meta.json  : {{"property": "{pid}", "summary": "<what the change does>", "needs_to_manifest": "<what specific input/sequence/fault/schedule exposes it>", "files_touched": [...], "tests_run": "<command and its pass/fail counts with the patch applied>"}}.

Verify each yourself before finishing: (a) with the patch applied the full test suite gives the same 267 passes / 6 failures as baseline, (b) demo.py fails with the patch and passes without it. Between changes and at the end restore the worktree with `git -C {wt} checkout -- .` (each patch.diff is against the clean HEAD, not stacked). Do not commit anything. Finish with a short report: one paragraph per change (what, why it escapes the tests, what it needs to manifest).""")
