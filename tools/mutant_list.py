"""Hand-written mutants for the sensitivity self-test (DESIGN §8).  (name, props, file, old, new)"""
A = "_array_types.py"
S = "_storage.py"
D = "_decorator.py"
P = "_pytree_type.py"
I = "_import_hook.py"

MUTANTS = [
    ("bcast1-dropped", ["C01"], A, "elif cls_dim.broadcastable and obj_size == 1:", "elif False:"),
    ("rank-offbyone", ["C01"], A, "if len(obj.shape) < len(cls.dims) - 1:", "if len(obj.shape) < len(cls.dims) - 2:"),
    ("suffix-skipped", ["C01"], A, "if j is not None:\n                suffix_check", "if False:\n                suffix_check"),
    ("var-p-after-b-no-eq", ["C01"], A, "if not broadcastable and broadcast_shape != new_shape:", "if False:"),
    ("var-b-after-p-no-eq", ["C01"], A, "if broadcast_shape != prev_shape:", "if False:"),
    ("var-p-after-p-no-eq", ["C01"], A, "if new_shape != prev_shape:", "if len(new_shape) != len(prev_shape):"),
    ("nameerror-to-false", ["C01"], A, "except NameError as e:\n", "except NameError as e:\n                return 'unbound'\n"),
    ("bind-on-bcast1", ["C01"], A, "elif cls_dim.broadcastable and obj_size == 1:\n            pass", "elif cls_dim.broadcastable and obj_size == 1:\n            if type(cls_dim) is _NamedDim: single_memo.setdefault(cls_dim.name, 1)"),
    ("var-memo-not-updated", ["C01"], A, "variadic_memo[name] = (broadcastable, broadcast_shape)", "pass"),
    ("fixed-bcast-ignored", ["C01"], A, "if cls_dim.size != obj_size:", "if cls_dim.size != obj_size and not (cls_dim.size == 1):"),
]
