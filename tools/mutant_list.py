"""Hand-written mutants for the sensitivity self-test (DESIGN §8).  (name, props, file, old, new)"""
A = "_array_types.py"
S = "_storage.py"
D = "_decorator.py"
P = "_pytree_type.py"
I = "_import_hook.py"

MUTANTS = [
    ("bcast1-dropped", ["C01"], A, "elif cls_dim.broadcastable and obj_size == 1:", "elif False:"),
    ("rank-offbyone", ["C01"], A, "if len(obj.shape) < len(cls.dims) - 1:", "if len(obj.shape) < len(cls.dims) - 2:"),
    ("suffix-skipped", ["C01"], A, "if j is not None:\n                suffix_check", "if False:\n                suffix_check"),
    ("var-p-after-b-no-eq", ["C01"], A, "if not broadcastable and broadcast_shape != new_shape:", "if False:"),
    ("var-b-after-p-no-eq", ["C01"], A, "if broadcast_shape != prev_shape:", "if False:"),
    ("var-p-after-p-no-eq", ["C01"], A, "if new_shape != prev_shape:", "if len(new_shape) != len(prev_shape):"),
    ("nameerror-to-false", ["C01"], A, "except NameError as e:\n", "except NameError as e:\n                return 'unbound'\n"),
    ("bind-on-bcast1", ["C01"], A, "elif cls_dim.broadcastable and obj_size == 1:\n            pass", "elif cls_dim.broadcastable and obj_size == 1:\n            if type(cls_dim) is _NamedDim: single_memo.setdefault(cls_dim.name, 1)"),
    ("var-memo-not-updated", ["C01"], A, "variadic_memo[name] = (broadcastable, broadcast_shape)", "pass"),
    ("fixed-bcast-ignored", ["C01"], A, "if cls_dim.size != obj_size:", "if cls_dim.size != obj_size and not (cls_dim.size == 1):"),
    ("float-no-bfloat16", ["C03"], A, "floats = float8 + [_bfloat16, _float16, _float32, _float64]", "floats = float8 + [_float16, _float32, _float64]"),
    ("tf-name-from-str", ["C03"], A, "dtype = obj.dtype.as_numpy_dtype.__name__", "dtype = str(obj.dtype)"),
    ("regex-search", ["C03"], A, "in_dtypes = bool(cls_dtype.match(dtype))", "in_dtypes = bool(cls_dtype.search(dtype))"),
    ("regex-fullmatch", ["C03"], A, "in_dtypes = bool(cls_dtype.match(dtype))", "in_dtypes = bool(cls_dtype.fullmatch(dtype))"),
    ("integer-no-uints", ["C03"], A, 'Integer = _make_dtype(uints + ints, "Integer")', 'Integer = _make_dtype(ints, "Integer")'),
    ("bool_-dropped", ["C03"], A, "bools = [_bool, _bool_]", "bools = [_bool]"),
    ("real-has-complex", ["C03"], A, 'Real = _make_dtype(floats + uints + ints, "Real")', 'Real = _make_dtype(floats + uints + ints + complexes, "Real")'),
    ("torch-repr-split", ["C03"], A, '*_, dtype = repr(obj.dtype).rsplit(".", 1)', '*_, dtype = repr(obj.dtype).split(".", 1)'),
    ("dtype-loop-no-break", ["C03"], A, "                if in_dtypes:\n                    break\n", ""),
    ("array-no-rollback-false", ["C04"], A, """        else:
            set_shape_memo(
                single_memo_bak, variadic_memo_bak, pytree_memo_bak, arg_memo_bak
            )
            return check""", """        else:
            return check"""),
    ("array-no-rollback-exc", ["C04"], A, """        except BaseException:
            set_shape_memo(
                single_memo_bak, variadic_memo_bak, pytree_memo_bak, arg_memo_bak
            )
            raise""", """        except BaseException:
            raise"""),
    ("array-rollback-exception-only", ["C04"], A, "            check = cls._check_shape(obj, single_memo, variadic_memo, arg_memo)\n        except BaseException:", "            check = cls._check_shape(obj, single_memo, variadic_memo, arg_memo)\n        except Exception:"),
    ("pytree-no-rollback-false", ["C04"], P, """        else:
            set_shape_memo(
                single_memo_bak, variadic_memo_bak, pytree_memo_bak, arg_memo_bak
            )
            return False""", """        else:
            return False"""),
    ("pytree-no-rollback-exc", ["C04"], P, """        except BaseException:
            set_shape_memo(
                single_memo_bak, variadic_memo_bak, pytree_memo_bak, arg_memo_bak
            )
            raise""", """        except BaseException:
            raise"""),
    ("array-snapshot-alias", ["C04"], A, "single_memo_bak = single_memo.copy()", "single_memo_bak = single_memo"),
    # ("array-variadic-snapshot-alias": equivalent mutant -- the variadic memo is written last in an array check, nothing can fail after it)
    ("pytree-struct-snapshot-alias", ["C04"], P, "pytree_memo_bak = pytree_memo.copy()", "pytree_memo_bak = pytree_memo"),
    ("pytree-single-snapshot-alias", ["C04"], P, "single_memo_bak = single_memo.copy()", "single_memo_bak = single_memo"),
    ("dataclass-init-unwrapped", ["C02"], D, "            fn.__init__ = jaxtyped(fn.__init__, typechecker=typechecker)", "            pass"),
    ("return-not-checked-with-params", ["C02"], D, "                        full_fn(*args, **kwargs)", "                        full_fn(*args, **kwargs) if len(args) < 2 else None"),
    ("bcast1-binds-in-call", ["C02"], A, "elif cls_dim.broadcastable and obj_size == 1:\n            pass", "elif cls_dim.broadcastable and obj_size == 1:\n            if type(cls_dim) is _NamedDim: single_memo.setdefault(cls_dim.name, 1)"),
    ("var-b-after-p-accumulates", ["C02"], A, "                            if broadcast_shape != prev_shape:\n", "                            if broadcast_shape != prev_shape and len(new_shape) <= len(prev_shape):\n"),
    ("stale-memos-in-message", ["C13"], D, "                            + shape_str(get_shape_memo())\n                        )\n                        if config.jaxtyping_remove_typechecker_stack:\n                            raise TypeCheckError(msg) from None\n                        else:\n                            raise TypeCheckError(msg) from e\n\n                # Actually", "                            + shape_str(memos)\n                        )\n                        if config.jaxtyping_remove_typechecker_stack:\n                            raise TypeCheckError(msg) from None\n                        else:\n                            raise TypeCheckError(msg) from e\n\n                # Actually"),
    ("blame-first-param", ["C13"], D, "f\"\\nThe problem arose whilst typechecking parameter '{keep_name}'.\\n\"", "f\"\\nThe problem arose whilst typechecking parameter '{next(iter(param_signature.parameters))}'.\\n\""),
    ("stage-sentences-swapped", ["C13"], D, '"Type-check error whilst checking the return value "', '"Type-check error whilst checking the parameters "'),
    ("annotationerror-wrapped", ["C13"], D, "                try:\n                    param_fn(*args, **kwargs)\n                except AnnotationError:\n                    raise\n", "                try:\n                    param_fn(*args, **kwargs)\n"),
    ("cause-always-kept", ["C13"], D, "                        if config.jaxtyping_remove_typechecker_stack:\n                            raise TypeCheckError(msg) from None\n                        else:\n                            raise TypeCheckError(msg) from e\n\n                return out", "                        raise TypeCheckError(msg) from e\n\n                return out"),
    ("problem-arg-fresh-context", ["C13"], D, "        try:\n            fn(*args, **kwargs)\n        except Exception as e:\n            keep_value", "        try:\n            push_shape_memo({}); fn(*args, **kwargs); pop_shape_memo()\n        except Exception as e:\n            pop_shape_memo(); keep_value"),
    ("body-called-twice", ["C07"], D, "                out = fn(*args, **kwargs)\n", "                fn(*args, **kwargs)\n                out = fn(*args, **kwargs)\n"),
    ("wraps-dropped", ["C07"], D, "            @ft.wraps(fn)\n            def wrapped_fn(*args, **kwargs):\n                __tracebackhide__ = True\n\n                if (", "            def wrapped_fn(*args, **kwargs):\n                __tracebackhide__ = True\n\n                if ("),
    # (gensym-ignores-params: equivalent mutant -- not observable by caller or callee)
    # (gensym-default-ignores-params: equivalent mutant -- not observable by caller or callee)
    ("lambda-name-in-def", ["C07"], D, "    if not def_name.isidentifier() or keyword.iskeyword(def_name):", "    if False:"),
    ("coroutine-return-checked", ["C07"], D, "                    and not inspect.iscoroutinefunction(fn)\n", ""),
    ("kwonly-star-dropped", ["C07"], D, '        if len(key) > 0:\n            argstr_pieces.append("*")', '        if len(key) > 1:\n            argstr_pieces.append("*")'),
    ("bind-after-push", ["C07", "C05"], D, "                bound = param_signature.bind(*args, **kwargs)\n                bound.apply_defaults()\n\n                memos = push_shape_memo(bound.arguments)", "                memos = push_shape_memo({})\n                bound = param_signature.bind(*args, **kwargs)\n                bound.apply_defaults()"),
    ("staticmethod-as-function", ["C07"], D, "        return staticmethod(jaxtyped(fn.__func__, typechecker=typechecker))", "        return jaxtyped(fn.__func__, typechecker=typechecker)"),
    # (call-with-bound-args: equivalent mutant -- not observable by caller or callee)
    ("pop-only-on-exception-class", ["C05"], D, "                try:\n                    # Put this in a separate frame to make debugging easier, without\n                    # just always ending up on the `pop_shape_memo` line below.\n                    return wrapped_fn_impl(args, kwargs, bound, memos)\n                finally:\n                    pop_shape_memo()", "                try:\n                    out = wrapped_fn_impl(args, kwargs, bound, memos)\n                except Exception:\n                    pop_shape_memo()\n                    raise\n                pop_shape_memo()\n                return out"),
    ("context-exit-only-clean", ["C05"], D, "    def __exit__(self, exc_type, exc_value, exc_tb):\n        pop_shape_memo()", "    def __exit__(self, exc_type, exc_value, exc_tb):\n        if exc_type is None:\n            pop_shape_memo()"),
    ("oldstyle-pop-only-success", ["C05"], D, "                    raise\n                finally:\n                    pop_shape_memo()", "                    raise\n                else:\n                    pop_shape_memo()"),
    ("toplevel-persistent-dicts", ["C05"], S, "        single_memo = {}\n        variadic_memo = {}", "        single_memo = get_shape_memo.__dict__.setdefault('s', {})\n        variadic_memo = {}"),
    ("push-shares-arguments", ["C05"], S, "    memos = ({}, {}, {}, arguments.copy())", "    memos = (memo_stack[-1][0] if memo_stack else {}, {}, {}, arguments.copy())"),
    ("pytree-last-leaf-skipped", ["C08"], P, "            for leaf_index, leaf in enumerate(leaves):", "            for leaf_index, leaf in enumerate(leaves[:-1] if len(leaves) > 2 else leaves):"),
    ("pytree-none-is-leaf", ["C08"], P, "            leaves, structure = jtu.tree_flatten(obj, is_leaf=is_flatten_leaftype)", "            leaves, structure = jtu.tree_flatten(obj, is_leaf=lambda x: x is None or is_flatten_leaftype(x))"),
    ("pytree-no-isleaf", ["C08"], P, "            leaves, structure = jtu.tree_flatten(obj, is_leaf=is_flatten_leaftype)", "            leaves, structure = jtu.tree_flatten(obj)"),
    ("pytree-leaves-isolated", ["C08"], P, "                if not is_check_leaftype(leaf):\n                    return False", "                _bak = get_shape_memo()\n                _bak = tuple(d.copy() for d in _bak)\n                _ok = is_check_leaftype(leaf)\n                set_shape_memo(*_bak)\n                if not _ok:\n                    return False"),
    # (pytree-flatten-flag-not-set: equivalent within the generated domain -- leaf boundaries never depend on shapes)
    ("pytree-empty-rejected", ["C08"], P, "        if cls.structure is not None:\n            if cls.structure.isidentifier():", "        if len(leaves) == 0 and obj != ():\n            return False\n        if cls.structure is not None:\n            if cls.structure.isidentifier():"),
    ("oldstyle-add-note-unguarded", ["C07", "C05"], D, "                            try:\n                                e.add_note(note)\n                            except Exception:", "                            e.add_note(note)\n                            try:\n                                pass\n                            except Exception:"),
    ("struct-bind-in-stale-memo", ["C09"], P, "        _, _, pytree_memo, _ = get_shape_memo()\n        if cls.structure is not None:", "        if cls.structure is not None:"),
    ("struct-prefix-suffix-swapped", ["C09"], P, 'if pieces[0] == "...":\n                    pieces = pieces[1:]\n                    prefix = False\n                    suffix = True', 'if pieces[0] == "...":\n                    pieces = pieces[1:]\n                    prefix = True\n                    suffix = False'),
    ("struct-compose-reversed", ["C09"], P, "                for identifier in pieces:\n                    try:", "                for identifier in reversed(pieces):\n                    try:"),
    ("struct-eq-weakened-to-prefix", ["C09"], P, "                    if structure != named_structure:\n                        return False", "                    if structure.num_leaves != named_structure.num_leaves:\n                        return False"),
    ("struct-ident-compare-skipped", ["C09"], P, "                    if prev_structure != structure:\n                        return False", "                    if prev_structure.num_leaves != structure.num_leaves:\n                        return False"),
    ("struct-validation-dropped", ["C09"], P, "                    if not piece.isidentifier():", "                    if False:"),
    ("struct-unbound-to-false", ["C09"], P, "                        raise AnnotationError(\n                            f\"Cannot process composite structure", "                        return False\n                        raise AnnotationError(\n                            f\"Cannot process composite structure"),
    ("struct-suffix-any", ["C09"], P, "                    if any(not has_structure(x) for x in dummy_leaves):", "                    if all(not has_structure(x) for x in dummy_leaves):"),
    ("struct-ellipsis-middle-allowed", ["C09"], P, "                    if (piece_index == 0) or (piece_index == len(pieces) - 1):\n                        if piece == \"...\":\n                            continue", "                    if piece == \"...\":\n                        continue"),
    ("treepath-prefix-dropped", ["C16"], A, "            if cls_dim.treepath:\n                name = get_treepath_memo() + cls_dim.name", "            if cls_dim.treepath:\n                get_treepath_memo(); name = '?' + cls_dim.name"),
    ("treepath-variadic-prefix-dropped", ["C16"], A, "                if variadic_dim.treepath:\n                    name = get_treepath_memo() + variadic_dim.name", "                if variadic_dim.treepath:\n                    get_treepath_memo(); name = '?' + variadic_dim.name"),
    ("treepath-constant-leaf-index", ["C16"], P, "                    set_treepath_memo(leaf_index, cls.structure)", "                    set_treepath_memo(0, cls.structure)"),
    ("treepath-not-cleared-between-leaves", ["C16"], P, "                if cls.structure is not None:\n                    clear_treepath_memo()\n        finally:", "                pass\n        finally:"),
    ("treepath-not-cleared-finally", ["C16"], P, "            if cls.structure is not None:\n                clear_treepath_memo()\n        return True", "            pass\n        return True"),
    ("nested-clears-outer-label", ["C16"], P, "                if cls.structure is not None:\n                    clear_treepath_memo()\n        finally:", "                clear_treepath_memo()\n        finally:"),
    ("flatten-flag-not-reentrant", ["C16"], P, "            if not already_flattening:\n                clear_treeflatten_memo()", "            clear_treeflatten_memo()"),
    ("treepath-same-as-plain", ["C16"], A, "            if cls_dim.treepath:\n                name = get_treepath_memo() + cls_dim.name", "            if cls_dim.treepath:\n                get_treepath_memo(); name = cls_dim.name"),
    ("ambiguity-check-dropped", ["C16"], S, "    if hasattr(_treepath_storage, \"value\") and _treepath_storage.value is not None:\n        raise AnnotationError(", "    if False:\n        raise AnnotationError("),
    ("disable-flag-inverted", ["C19"], D, "                    config.jaxtyping_disable\n                    or getattr(fn", "                    (not config.jaxtyping_disable and False)\n                    or getattr(fn"),
    ("disable-flag-dropped", ["C19"], D, "                    config.jaxtyping_disable\n                    or getattr(fn", "                    getattr(fn"),
    ("yes-accepted", ["C19"], "_config.py", 'elif value.lower() in ("1", "true"):', 'elif value.lower() in ("1", "true", "yes", "on"):'),
    ("int-accepted", ["C19"], "_config.py", "    if isinstance(value, bool):\n        return value", "    if isinstance(value, (bool, int)):\n        return bool(value)"),
    ("case-sensitive", ["C19"], "_config.py", 'elif value.lower() in ("1", "true"):', 'elif value in ("1", "true", "True"):'),
    # (ntc-below-ignored: equivalent mutant)
    ("ntc-above-ignored", ["C19"], D, '                    or getattr(wrapped_fn_holder[0](), "__no_type_check__", False)\n', ""),
    # (disabled-skips-body: equivalent mutant)
    ("unknown-key-ignored", ["C19"], "_config.py", '            raise ValueError(f"Unrecognised config value {item}")', "            pass"),
    ("disabled-double-call", ["C19"], D, "                ):\n                    return fn(*args, **kwargs)\n\n                # Raise bind-time", "                ):\n                    fn(*args, **kwargs)\n                    return fn(*args, **kwargs)\n\n                # Raise bind-time"),
    ("pickle-nested-widened", ["C20"], A, "    if dtypes is not None and out.dtypes != dtypes:", "    if False:"),
    ("pickle-loses-array-type", ["C20"], A, "        return _unpickle_array_annotation, (x.dtype, x.array_type, x.dim_str, dtypes)", "        return _unpickle_array_annotation, (x.dtype, Any, x.dim_str, dtypes)"),
    ("pickle-loses-dims", ["C20"], A, "        return _unpickle_array_annotation, (x.dtype, x.array_type, x.dim_str, dtypes)", "        return _unpickle_array_annotation, (x.dtype, x.array_type, '...', dtypes)"),
    ("sentinel-by-value", ["C20"], A, "    def __reduce__(self):\n        return self._name\n", ""),
    ("pickle-dimstr-first-token", ["C20"], A, "        return _unpickle_array_annotation, (x.dtype, x.array_type, x.dim_str, dtypes)", "        return _unpickle_array_annotation, (x.dtype, x.array_type, x.dim_str.replace('#', ''), dtypes)"),
    ("nest-union-not-intersection", ["C15"], A, "            dtypes = tuple(x for x in dtypes if x in array_type.dtypes)", "            dtypes = tuple(dict.fromkeys(tuple(dtypes) + tuple(array_type.dtypes)))"),
    ("nest-dims-order", ["C15"], A, "        dims = dims + array_type.dims", "        dims = array_type.dims + dims"),
    ("nest-variadic-shift", ["C15"], A, "                index_variadic = array_type.index_variadic + len(dims)", "                index_variadic = array_type.index_variadic"),
    ("nest-any-outer-keeps-any", ["C15"], A, "        if dtypes is _any_dtype:\n            dtypes = array_type.dtypes", "        if dtypes is _any_dtype:\n            pass"),
    ("scalar-any-rank", ["C15"], A, "    for dim in dims:\n        if dim is not _anonymous_variadic_dim and not isinstance(\n            dim, _NamedVariadicDim\n        ):\n            return False", "    pass"),
    ("scalar-substring", ["C15"], A, "any(d.startswith(dtype) for d in dtypes)", "any(dtype in d for d in dtypes)"),
    ("typevar-bound-ignored", ["C15"], A, "            else:\n                array_type = bound", "            else:\n                array_type = Any"),
    ("union-first-only", ["C15"], A, "            out = [_make_array(x, dim_str, cls) for x in get_args(array_type)]", "            out = [_make_array(x, dim_str, cls) for x in get_args(array_type)[:1]]"),
    ("nest-both-variadic-allowed", ["C15"], A, '                raise ValueError(\n                    "Cannot use variadic specifiers (`*name` or `...`) "\n                    "in both the original array and the extended array"\n                )', "                pass"),
    ("hook-func-decorator-first", ["C10"], I, "        node.decorator_list.append(decorator)", "        node.decorator_list.insert(0, decorator)"),
    ("hook-class-decorator-last", ["C10"], I, "        node.decorator_list.insert(0, decorator)\n        self._parents.append(node)", "        node.decorator_list.append(decorator)\n        self._parents.append(node)"),
    ("hook-func-no-copy-location", ["C10"], I, "        decorator = self._typechecker.get_ast()\n        ast.copy_location(decorator, node)\n        # Place at the end", "        decorator = self._typechecker.get_ast()\n        # Place at the end"),
    ("hook-import-first", ["C10"], I, "                node.body.insert(i, ast.Import(names=[ast.alias(\"jaxtyping\", None)]))", "                node.body.insert(0, ast.Import(names=[ast.alias(\"jaxtyping\", None)]))"),
    ("hook-import-after-docstring-only", ["C10"], I, "            if isinstance(child, ast.ImportFrom) and child.module == \"__future__\":\n                continue\n            elif", "            if False:\n                continue\n            elif"),
    ("hook-async-decorated", ["C10"], I, "    def visit_FunctionDef(self, node: ast.FunctionDef):", "    def visit_AsyncFunctionDef(self, node):\n        return self.visit_FunctionDef(node)\n\n    def visit_FunctionDef(self, node: ast.FunctionDef):"),
    ("hook-nested-defs-skipped", ["C10"], I, "        node.decorator_list.append(decorator)\n\n        self._parents.append(node)\n        self.generic_visit(node)", "        node.decorator_list.append(decorator)\n\n        self._parents.append(node)"),
    ("hook-class-body-skipped", ["C10"], I, "        node.decorator_list.insert(0, decorator)\n        self._parents.append(node)\n        self.generic_visit(node)", "        node.decorator_list.insert(0, decorator)\n        self._parents.append(node)"),
    # (hook-compile-inherits-flags: covered by seeded change C10-m1)
    ("hook-startswith-no-dot", ["C11"], I, 'if module_name == module or module_name.startswith(module + "."):', "if module_name.startswith(module):"),
    ("hook-equality-only", ["C11"], I, 'if module_name == module or module_name.startswith(module + "."):', "if module_name == module:"),
    ("hook-uninstall-noop", ["C11"], I, "            sys.meta_path.remove(self.hook)", "            pass"),
    ("hook-exit-noop", ["C11"], I, "    def __exit__(self, exc_type, exc_val, exc_tb):\n        self.uninstall()", "    def __exit__(self, exc_type, exc_val, exc_tb):\n        pass"),
    ("hook-appended-not-first", ["C11"], I, "    sys.meta_path.insert(0, hook)", "    sys.meta_path.insert(max(0, i), hook)"),
    ("hook-lookup-constant-key", ["C11"], I, "            Typechecker.lookup[self.hash] = vars[\"f\"]", "            self.hash = 'k'\n            Typechecker.lookup[self.hash] = vars[\"f\"]"),
    ("hook-only-first-name", ["C11"], I, "        for module in self.modules:\n            if module_name", "        for module in self.modules[:1]:\n            if module_name"),
    ("pytest-no-strip", ["C11"], "_pytest_plugin.py", "    packages = [pkg.strip() for pkg in value.split(\",\")]", "    packages = [pkg for pkg in value.split(\",\")]"),
    ("pytest-checker-first", ["C11"], "_pytest_plugin.py", "    *packages, typechecker = packages", "    typechecker, *packages = packages"),
    ("pytest-no-already-imported-check", ["C11"], "_pytest_plugin.py", "    if already_imported_packages:", "    if False:"),
    ("pyc-tag-without-checker-hash", ["C18"], I, 'path, debug_override, optimization=f"jaxtyping9{typechecker_hash}"', 'path, debug_override, optimization="jaxtyping9"'),
    ("pyc-no-tag", ["C18"], I, "        with patch(\n            \"importlib._bootstrap_external.cache_from_source\",\n            ft.partial(\n                _optimized_cache_from_source,\n                self._typechecker.get_hash(),\n                self.get_filename(fullname),\n                _bootstrap_external.cache_from_source,\n            ),\n        ):\n            return super().get_code(fullname)", "        return super().get_code(fullname)"),
    # (pyc-patch-whole-exec -- keeping the monkey patch active while the module executes -- became harmless with fix 6ec1c65: the replacement only
    #  redirects the instrumented module's own path.  Its place is taken by the revert of that fix.)
    ("pyc-marker-for-every-path", ["C18"], I, "    if path != own_path:\n        return fallback(path, debug_override, **kwargs)", "    if False:\n        return fallback(path, debug_override, **kwargs)"),
    ("pyc-hash-collapses", ["C18"], I, '            self.hash = hashlib.md5(typechecker.encode("utf-8")).hexdigest()', '            self.hash = hashlib.md5(typechecker.split(".")[0].encode("utf-8")).hexdigest()'),
    ("check-reads-values", ["C17"], A, "        if get_treeflatten_memo():\n            return \"\"\n", "        if get_treeflatten_memo():\n            return \"\"\n        if hasattr(obj, 'sum') and len(obj.shape) > 0 and obj.shape[0] > 1 and bool(obj.sum() != obj.sum()):\n            return 'nan'\n"),
    ("check-asarray", ["C17"], A, "        if get_treeflatten_memo():\n            return \"\"\n", "        if get_treeflatten_memo():\n            return \"\"\n        if len(getattr(obj, 'shape', ())) == 2:\n            np.asarray(obj)\n"),
    ("tracer-rejected", ["C17"], A, "            if not isinstance(obj, cls.array_type):", "            if not isinstance(obj, cls.array_type) or ('Tracer' in type(obj).__name__ and len(obj.shape) == 3):"),
    ("batchtracer-shape-misread", ["C17"], A, "            if len(obj.shape) != len(cls.dims):", "            if len(getattr(obj, 'val', obj).shape) != len(cls.dims):"),
    # (flatten-flag-finally-to-except: replaced by seeded changes C12-m1 / C08-m1)
    # (flatten-flag-never-cleared-on-error: replaced by seeded changes C12-m1 / C08-m1)
    ("treepath-finally-to-except", ["C12"], P, "        finally:\n            # Only a structured PyTree sets the treepath; a structure-less one must not\n            # clear the treepath of a structured PyTree that it is nested inside.\n            if cls.structure is not None:\n                clear_treepath_memo()", "        except Exception:\n            clear_treepath_memo()\n            raise"),
    ("newstyle-pop-except-exception", ["C12"], D, "                try:\n                    # Put this in a separate frame to make debugging easier, without\n                    # just always ending up on the `pop_shape_memo` line below.\n                    return wrapped_fn_impl(args, kwargs, bound, memos)\n                finally:\n                    pop_shape_memo()", "                try:\n                    out = wrapped_fn_impl(args, kwargs, bound, memos)\n                except Exception:\n                    pop_shape_memo()\n                    raise\n                pop_shape_memo()\n                return out"),
    ("make-array-cache-too-coarse", ["C12"], A, "    out = _make_array_cached(x, dim_str, dtype.dtypes, dtype.__name__)", "    out = _make_array_cached(x, dim_str, dtype.dtypes if dim_str != 'q' else ('int32',), dtype.__name__)"),
    ("hook-exit-skipped-on-exception", ["C12"], I, "    def __exit__(self, exc_type, exc_val, exc_tb):\n        self.uninstall()", "    def __exit__(self, exc_type, exc_val, exc_tb):\n        if exc_type is None:\n            self.uninstall()"),
    # (name-format-leaks-into-check: replaced by seeded changes C12-m1 / C08-m1)
    ("shape-storage-global", ["C06"], S, "_shape_storage = threading.local()", "class _G: pass\n_shape_storage = _G()"),
    ("treepath-storage-global", ["C06"], S, "_treepath_storage = threading.local()", "class _G2: pass\n_treepath_storage = _G2()"),
    ("treeflatten-storage-global", ["C06"], S, "_treeflatten_storage = threading.local()", "class _G3: pass\n_treeflatten_storage = _G3()"),
    ("magic-keeps-old-transformer", ["C11"], "_ipython_extension.py", "                    lambda x: not isinstance(x, JaxtypingTransformer),", "                    lambda x: True,"),
    ("magic-prepends-transformer", ["C11"], "_ipython_extension.py", "            self.shell.ast_transformers.append(\n                JaxtypingTransformer(typechecker=Typechecker(typechecker))\n            )", "            self.shell.ast_transformers.insert(0, JaxtypingTransformer(typechecker=Typechecker('vf_spy.a')))"),
]
