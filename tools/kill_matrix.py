#!/venv/bin/python
"""Rewrites the generated part of DESIGN.md §8 (between the KILL-MATRIX markers) from
tools/MUTANTS-RESULTS.json, seeded/RESULTS-quick.json and the seeds' meta.json files."""
import json
import os
import re
import sys

VERIF = os.path.dirname(os.path.dirname(os.path.abspath(__file__)))
sys.path.insert(0, VERIF)
from tools.mutant_list import MUTANTS  # noqa: E402

mres = json.load(open(os.path.join(VERIF, "tools", "MUTANTS-RESULTS.json"))) if os.path.exists(os.path.join(VERIF, "tools", "MUTANTS-RESULTS.json")) else {}
sres = json.load(open(os.path.join(VERIF, "seeded", "RESULTS-quick.json"))) if os.path.exists(os.path.join(VERIF, "seeded", "RESULTS-quick.json")) else {}
targets = json.load(open(os.path.join(VERIF, "tools", "seed_targets.json")))

out = []
out.append("### 8.1 Hand-written mutants (tools/mutant_list.py, run with `tools/mutants.py`)\n")
byprop = {}
for name, props, file, old, new in MUTANTS:
    for p in props:
        byprop.setdefault(p, []).append((name, file, mres.get(f"{p}:{name}", "not run")))
tot = sum(len(v) for v in byprop.values())
killed = sum(1 for v in byprop.values() for x in v if x[2] == "killed")
out.append(f"{killed}/{tot} killed by the quick tier of the check named in the first column (each mutant is one textual replacement in the "
           f"named file, applied to a scratch copy; equivalent mutants that were identified are commented out in the list with the reason).\n")
out.append("| check | mutants (file) → result |\n|---|---|")
for p in sorted(byprop):
    cells = "; ".join(f"`{n}` ({f.replace('_', '').replace('.py', '')}) → {'✔' if r == 'killed' else r}" for n, f, r in byprop[p])
    out.append(f"| {p} | {cells} |")
out.append("")
out.append("### 8.2 Changes seeded by independent sub-agents (seeded/<id>/, run with `tools/seeded.py runall`)\n")
n_caught = sum(1 for v in sres.values() if "caught" in v.values())
n_retired = sum(1 for v in sres.values() if "retired" in v.values())
out.append(f"Each sub-agent was given only the text of one property and a scratch worktree; every kept change was confirmed by me (demo fails with the "
           f"patch and passes without it; the 267-test baseline still passes with it). **{n_caught}/{len(sres) - n_retired} are caught** by the quick tier of the "
           f"check(s) in the last column ({n_retired} further changes are *retired*: a later `fix:` commit made them harmless, see their meta.json). "
           f"Rounds: `Cxx-mN` = round 1 (2 per property), `Cxx-rKmN` = round K (3 per property; each round was steered towards another kind of change, §5). "
           f"A seed whose natural detector is the check of another property (the change breaks that "
           f"property as well) is listed with that check (tools/seed_targets.json).\n")
out.append("| seed | what it does / what it needs to manifest | caught by (clause family) |\n|---|---|---|")
for name in sorted(sres):
    try:
        meta = json.load(open(os.path.join(VERIF, "seeded", name, "meta.json")))
    except Exception:
        meta = {}
    summ = (meta.get("summary") or "")[:230].replace("|", "/").replace("\n", " ")
    needs = (meta.get("needs_to_manifest") or "")[:200].replace("|", "/").replace("\n", " ")
    res = sres[name]
    by = ", ".join(f"{p}: {r}" for p, r in res.items())
    out.append(f"| {name} | {summ} — *needs:* {needs} | {by} |")
text = "\n".join(out) + "\n"
p = os.path.join(VERIF, "DESIGN.md")
s = open(p).read()
b, e = "<!-- KILL-MATRIX-BEGIN -->", "<!-- KILL-MATRIX-END -->"
if b not in s:
    raise SystemExit("markers missing in DESIGN.md")
s = s[: s.index(b) + len(b)] + "\n" + text + s[s.index(e):]
open(p, "w").write(s)
print(f"mutants {killed}/{tot}; seeds {n_caught}/{len(sres) - n_retired} (+{n_retired} retired)")
