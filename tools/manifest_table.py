"""Per-property manifest entries."""
CHECKS = [
    dict(property_id="C01", level="exploration", design_ref="DESIGN.md §5 C01, §3.1",
         technique="Hypothesis-generated check histories vs. an independent reference matcher (model-based differential), print_bindings invariant after every step",
         text="Randomised exploration of (dim spec, category, array type, value, prior context) histories; each verdict and the "
              "bindings transcript are compared with a reference model of the documented dim language. Shows agreement on "
              "~10^4 (quick) to ~10^6 (thorough) checks spread over all branch classes; not a proof.",
         note="trusted: vf/models/dimlang.py and vf/models/dtypes.py (written from docs/api/array.md); bounded ranks<=7, sizes in {0,1,2,3,4,5,7}; numpy/duck/jax backends"),
]
_pending = "check not built yet in this round (will be claimed once its machinery is committed)"
NOT_APPLICABLE = [dict(property_id=f"C{i:02d}", reason=_pending) for i in range(1, 21)
                  if f"C{i:02d}" not in {c["property_id"] for c in CHECKS}]
