"""Per-property manifest entries."""
CHECKS = [
    dict(property_id="C01", level="exploration", design_ref="DESIGN.md §5 C01, §3.1",
         technique="Hypothesis-generated check histories vs. an independent reference matcher (model-based differential), print_bindings invariant after every step",
         text="Randomised exploration of (dim spec, category, array type, value, prior context) histories; each verdict and the "
              "bindings transcript are compared with a reference model of the documented dim language. Shows agreement on "
              "~10^4 (quick) to ~10^6 (thorough) checks spread over all branch classes; not a proof.",
         note="trusted: vf/models/dimlang.py and vf/models/dtypes.py (written from docs/api/array.md); bounded ranks<=7, sizes in {0,1,2,3,4,5,7}; numpy/duck/jax backends"),
    dict(property_id="C03", level="exploration", design_ref="DESIGN.md §5 C03",
         technique="complete enumeration of the finite (dtype x category x backend) space against a hand-typed table of the documented hierarchy",
         text="Every concrete NumPy/ml_dtypes scalar type, JAX key dtypes, structured and byte-order-explicit dtypes x 34 exported classes + 24 user categories x "
              "NumPy/jax.Array/tracers/keys/TensorFlow/duck backends is enumerated completely (exhaustive: true, ~2.8e4 triples); for the "
              "installed library versions this decides the property on its whole finite domain.",
         note="trusted: vf/models/dtypes.py typed from docs/api/array.md; PyTorch/MLX represented by duck arrays with their dtype repr; Python 3.12, numpy 1.26, jax 0.6.2, tensorflow 2.21 only"),
    dict(property_id="C14", level="exploration", design_ref="DESIGN.md §5 C14, §3.1",
         technique="exhaustive token enumeration + Hypothesis token sequences/raw text; oracle = constructed-token legality rules and metamorphic equality of acceptance vectors with the canonical spelling",
         text="All 341 modifier strings x doc= positions x 5 base classes and all pairs of 40 representative tokens are enumerated; Hypothesis adds "
              "<=4-token sequences with arbitrary whitespace, non-strings and raw text. Illegal => ValueError exactly, legal => same acceptance vector "
              "as the canonical spelling and as the reference matcher, anything => builds or ValueError.",
         note="trusted: Token.legal/meaning in vf/models/dimlang.py (typed from docs); undocumented forms are checked for totality only"),
    dict(property_id="C04", level="exploration", design_ref="DESIGN.md §5 C04",
         technique="Hypothesis histories with targeted partial failures and injected exceptions; invariant: print_bindings transcript before == after every failed/raising check, == reference model after a pass",
         text="Generated histories mix array checks, PyTree checks and checks that raise part-way (unbound names, user code raising Exception and "
              "BaseException subclasses, array attributes raising on the n-th read), repeats and re-use probes; the bindings transcript is compared "
              "with the reference model after every step. Non-trivial cases are failures after >=1 tentative binding.",
         note="trusted: vf/models/dimlang.py, vf/models/pytree.py; array leaves only; observation through print_bindings and follow-up verdicts"),
    dict(property_id="C02", level="exploration", design_ref="DESIGN.md §5 C02, §3.1",
         technique="Hypothesis-generated call cases decided by an order-free exists-assignment solver (reference) plus a differential/metamorphic vector over parameter permutations, call styles, typecheckers, decorator spellings and dataclass __init__",
         text="Each generated signature+shapes case is executed in up to 36 spellings (3 orders x 3 call styles x 2 checkers x 2 decorator "
              "spellings) plus jaxtyped dataclasses; every verdict must equal the solver's and therefore each other. Focused generator modes "
              "share one variadic / broadcast name across all arguments.",
         note="trusted: satisfiable() and match() in vf/models/dimlang.py (cross-checked per case); typeguard 2.13.3 / beartype 0.22.9; NumPy arrays"),
    dict(property_id="C13", level="exploration", design_ref="DESIGN.md §5 C13",
         technique="Hypothesis-generated ill-typed calls; the raised exception's class, stage sentence, blamed parameter, listed bindings and __cause__ are compared with a sequential reference walk of the signature",
         text="For every generated rejected call (failure at any parameter position or at the return value, Unions whose first alternative "
              "binds and fails, structured PyTrees, annotation misuse) under both typecheckers, both call styles and both values of the "
              "remove-stack switch, the message must name the first failing parameter of the reference walk and list exactly the bindings "
              "made by the checks that passed before it.",
         note="trusted: reference matcher + PyTree model; relies on typeguard 2.13.3/beartype 0.22.9 visiting parameters in signature order; message format parsed by vf/obs.py"),
    dict(property_id="C07", level="exploration", design_ref="DESIGN.md §5 C07, §3.4",
         technique="Hypothesis-generated signatures/callables/descriptors compiled from source text; differential test of the decorated callable against its undecorated twin (identity of arguments, result and exception, call count, metadata, signature, descriptor kind)",
         text="Generated signatures over all five parameter kinds with names colliding with the wrapper's internals, def/lambda/async callables, "
              "five descriptor kinds and both typecheckers are decorated and driven with well-typed, ill-typed and non-binding argument lists; "
              "every observable is compared with the undecorated twin.",
         note="annotation vocabulary int/str/1-d array/none (typedness decided by construction); beartype's sampling of variadic items avoided by never placing ill-typed values there"),
    dict(property_id="C05", level="exploration", design_ref="DESIGN.md §5 C05",
         technique="Hypothesis-generated programs of nested decorated calls / context blocks / exits interpreted against real decorated functions; invariant after every node: print_bindings transcript == model context stack",
         text="Programs up to depth 5 mixing all decorator spellings, methods, dataclass __init__, (shared) context blocks, manual and {arg} checks, "
              "exits by return/Exception/BaseException/ill-typed parameter/ill-typed return and generator/coroutine creation are executed; after "
              "every node the caller's and callee's bindings must equal the model stack, and top level must stay stateless.",
         note="model: a stack of dicts; observation through print_bindings and check verdicts; single-threaded (threads are C06)"),
    dict(property_id="C08", level="exploration", design_ref="DESIGN.md §5 C08, §3.3",
         technique="Hypothesis-generated (prior context, leaf type, tree) cases decided by a reference PyTree flatten + dim matcher; laws PyTree[L]==PyTree[PyTree[L]], bare PyTree, rollback and bindings==model checked on every case",
         text="Trees over tuples/lists/dicts/None/empty containers/namedtuples/custom nodes with 8 kinds of leaf type (scalars, pairs, unions, Any, "
              "arrays, Union[array,str], tuple[array,int]) are checked in a context populated by earlier array checks; verdict and bindings must "
              "equal the reference model's.",
         note="trusted: vf/models/pytree.py + dimlang.py; leaf types with shape-dependent leaf boundaries excluded (documented don't-care)"),
    dict(property_id="C09", level="exploration", design_ref="DESIGN.md §5 C09, §3.3",
         technique="Hypothesis-generated (t, s, x, form) histories decided by a reference structure model (equality / composition / prefix / suffix) that is itself cross-checked against jax.tree_util; second engine over structure strings",
         text="x is constructed from t and s so that each of the seven structure forms is accepted about as often as rejected; binding on first use, "
              "comparison afterwards, AnnotationError for unbound names in composites, rollback and build-time validation of structure strings are checked.",
         note="trusted: vf/models/pytree.py (cross-checked per case against jax.tree_util leaves/structure equality); don't-care strings listed in the evidence assumptions"),
    dict(property_id="C16", level="exploration", design_ref="DESIGN.md §5 C16",
         technique="Hypothesis-generated decorated calls over 1..3 structured PyTrees with '?' axes, decided by the reference matcher with per-leaf-position names; misuse forms must raise AnnotationError; label-cleared probe after every case",
         text="Per-position sizes are drawn once and reused across the argument trees, then mutated (swap / change / extra leaf); '?' axes appear alone, "
              "inside Union[int,.], tuple[.,int] and a structure-less PyTree, with a plain axis of the same name before or after and optionally "
              "aliased leaves; both typecheckers.",
         note="trusted: dimlang matcher with labels + ptcheck; nested-wrapping trees contain arrays only"),
    dict(property_id="C19", level="exploration", design_ref="DESIGN.md §5 C19",
         technique="Hypothesis-generated histories of switch updates and calls on one decorated callable, differential against the undecorated twin while disabled, TypeCheckError again after re-enabling; subprocess runs for the environment variable and a hooked module",
         text="Every valid spelling of the switch (0/1/true/false in any case, bools) at every moment relative to decoration and calls, invalid values and "
              "unknown keys (ValueError, state unchanged), typing.no_type_check above/below the decorator, calls from another thread, well- and "
              "ill-typed argument lists over C07's signatures; JAXTYPING_DISABLE spellings and a hooked module in subprocesses.",
         note="new-style decorator only; the undecorated twin is a second compilation of the same generated source"),
    dict(property_id="C20", level="exploration", design_ref="DESIGN.md §5 C20",
         technique="Hypothesis-generated annotations round-tripped through pickle 0-5 / cloudpickle / copy / deepcopy in-process and into a fresh subprocess; metamorphic equality of acceptance vectors (original vs reconstruction, original before vs after)",
         text="The acceptance vector over ~120 probe values x 2 contexts of every reconstructed annotation must equal the original's, the original must be "
              "unchanged by dumping/loading, look-alike (nested vs flat) annotations are loaded one after the other, and pickle/cloudpickle payloads are "
              "re-evaluated in a fresh interpreter.",
         note="probe set is finite (9 dtypes x 9 shapes + duck + jax arrays + non-arrays); user categories from the importable module vf/usercats.py"),
    dict(property_id="C15", level="exploration", design_ref="DESIGN.md §5 C15",
         technique="laws as equalities of acceptance vectors: exhaustive enumeration of the 34x34 category pairs and of the scalar-type table, Hypothesis for spec pairs / union / TypeVar forms; dtype side from the documented table, shape side metamorphic",
         text="Nesting (two and three levels), union/X|Y unpacking, TypeVar bound/constraints/plain, the Python-scalar ladder and the Scalar/ScalarLike/"
              "PRNGKeyArray aliases are each compared, over a probe set of arrays/scalars/non-arrays in two contexts, with the side of the law the "
              "documentation states; building errors must be exactly ValueError where the law says so.",
         note="trusted: vf/models/dtypes.py (intersection, scalar kinds); a precision class contains the Python scalar type of its own dtype-name family; alias law also after an injected `import jax` failure (fresh interpreters)"),
    dict(property_id="C10", level="translation_validation", design_ref="DESIGN.md §5 C10",
         technique="translation validation per program over a corpus (stdlib + site-packages) and Hypothesis-generated modules: strip exactly the documented additions and compare ASTs with attributes; compare code objects of the loader pipeline with a plain compile; execute generated modules both ways",
         text="Each program is validated individually: the transformed tree minus one import and one decorator per def/class must equal the original node for "
              "node including every line/column, the loader's code objects must carry the same names, function first lines and __future__ flags, and "
              "generated modules behave identically when executed (results, docstrings, traceback lines).",
         note="corpus = files that compile unmodified on CPython 3.12 (quick: seed-dependent sample of ~1200; thorough: all ~17k); location of the added nodes judged via code objects"),
    dict(property_id="C11", level="exploration", design_ref="DESIGN.md §5 C11",
         technique="Hypothesis-generated histories of install/uninstall/import operations over a package forest with look-alike names; model = first-import decision by the most recently installed matching active hook; spy typecheckers + inserted-import + ill-typed-call observations",
         text="Several hooks with different checkers (incl. None) active at once, with-block and handle styles, uninstall in any order, imports of parents/"
              "siblings/look-alikes, modules that appear later or live in a zip archive, imports executed lazily inside function bodies after an uninstall, and the pytest option are interleaved (plus real pytest sessions and IPython histories in subprocesses); after each "
              "operation every loaded forest module must have exactly the instrumentation the model predicts.",
         note="11-module forest in a temp dir, bytecode writing off; sys.modules purged between cases only; pytest and IPython driven in fresh subprocesses"),
    dict(property_id="C18", level="exploration", design_ref="DESIGN.md §5 C18",
         technique="Hypothesis-generated histories of interpreter runs over one cache directory with bytecode writing on (harness owns sources, mtimes and hook configuration per run); per run and module the observed instrumentation/checker/source version is compared with the model",
         text="Runs choose hooked subsets, one or two hooks with different checkers, import orders incl. nested imports, an import made by a second thread while the first module is being read, and source edits; quick simulates runs "
              "in one process (plus a few real-subprocess histories), thorough executes every run in a fresh interpreter. A stale .pyc shows up as the wrong "
              "checker, missing/extra instrumentation or an old source version.",
         note="5-module forest incl. a helper module imported by the (lazily imported) typechecker module; CPython 3.12 pyc validation; in-process simulation clears Typechecker.lookup and sys.modules to mimic a new interpreter"),
    dict(property_id="C17", level="exploration", design_ref="DESIGN.md §5 C17",
         technique="Hypothesis-generated decorated functions over jax.Array called eagerly (zeros/random/NaN values, repeated) and under jit/vmap/grad/value_and_grad/eval_shape and depth-2 compositions; differential: traced verdict == eager verdict == reference solver",
         text="For each generated signature/shape case and in_axes assignment, every transformation must raise TypeCheckError exactly when the eager call on "
              "arrays of the traced shapes does, never a concretization/tracer-conversion error, trace the body once, and the eager verdict must not "
              "depend on element values (incl. weakly typed scalars) or on earlier calls.",
         note="CPU, float32, jax 0.6.2; batch sizes 1..3; the reference solver of C02 cross-checks the eager verdict"),
    dict(property_id="C12", level="fault_enumeration", design_ref="DESIGN.md §5 C12",
         technique="complete enumeration of (operation, k-th call-out into user code, exception class) over an instrumented catalogue + Hypothesis histories of public-API operations; oracle = fixed probe set whose verdicts must equal those of a fresh interpreter (also from a second thread)",
         text="Every call-out jaxtyping makes into harness-owned user code during 17 catalogue operations is failed once with each of four exception classes "
              "(Exception and BaseException subclasses); after each run and after generated fault-free histories, 14 probes detect any leaked flatten-mode flag, "
              "leaf label, open context, mutated annotation, changed switch or left-over import hook.",
         note="faults only at call-outs the harness owns; the make_transparent finding is listed in known_findings.json and excluded from generated histories (counted)"),
    dict(property_id="C06", level="exploration", design_ref="DESIGN.md §5 C06",
         technique="harness-owned deterministic thread schedules (sys.settrace line tracing of jaxtyping's own frames plus sys.monitoring instruction-level points inside jaxtyping/_storage.py, one runnable thread at a time) drawn by Hypothesis; differential: per-thread transcript interleaved == transcript of the same workload alone",
         text="2-3 threads run generated workloads (decorated calls, context blocks, passing/failing array checks, structured PyTree checks with '?' axes) that "
              "share annotation objects, value objects and names, optionally after threads that ended inside an open context; context switches are forced every 1-8 source lines of jaxtyping (plus drawn segments), i.e. inside every "
              "window between snapshot/restore, flag set/clear and push/pop. Each thread must obtain exactly the verdicts, listed bindings and transcripts it obtains alone.",
         note="line-granular pre-emption of jaxtyping's Python code (instruction-granular inside _storage.py in half of the cases) under the GIL; not inside C extensions; the solo run is the oracle, plus one absolute invariant on the solo transcript"),
]
_pending = "check not built yet in this round (will be claimed once its machinery is committed)"
NOT_APPLICABLE = [dict(property_id=f"C{i:02d}", reason=_pending) for i in range(1, 21)
                  if f"C{i:02d}" not in {c["property_id"] for c in CHECKS}]
