"""Coverage-guided (atheris/libFuzzer) target for C14: bytes -> token sequence or raw text -> oracle.

Run as:  python -m vf.fuzz_c14 <corpus_dir> -runs=N -max_total_time=T -seed=S
Prints 'VF-VIOLATION <json>' and raises on the first oracle violation (libFuzzer then saves the input);
prints 'VF-STATS <json>' at the end is not possible (atexit does not run under libFuzzer), so statistics are
flushed to <corpus_dir>/stats.json every 2000 executions."""
import json
import os
import sys

import atheris

with atheris.instrument_imports(include=["jaxtyping"]):
    import jaxtyping  # noqa: F401
    from jaxtyping import _array_types  # noqa: F401

import numpy as np  # noqa: E402

from jaxtyping import Shaped  # noqa: E402
from vf.models import dimlang as dl  # noqa: E402
from vf.models.dimlang import Token  # noqa: E402

STATS = {"executions": 0, "token_mode": 0, "raw_mode": 0, "legal": 0, "illegal": 0, "dontcare": 0, "probed": 0}
OUT = [None]
BASES = ["name", "int", "sym", "empty", "ellipsis"]
NAMES = ["a", "b", "foo", "v"]
SYMS = [("bin", "+", ("name", "a"), ("int", 1)), ("bin", "*", ("int", 2), ("name", "b")), ("call", "min", ("name", "a"), ("int", 3)), ("bin", "-", ("name", "a"), ("name", "b"))]
WS = [" ", "  ", "\t", "\n", " \t "]
ALPHABET = "#*_?=., ()+-{}ab3v0\t\n:/[]'\"\\"
PROBES = [(), (1,), (3,), (3, 4), (1, 4), (2, 3, 4)]


def violation(kind, spec, msg):
    print("VF-VIOLATION " + json.dumps({"clause": kind, "spec": spec, "message": msg}), flush=True)
    raise RuntimeError(f"{kind}: {msg}")


def build(spec):
    try:
        return "ok", Shaped[np.ndarray, spec]
    except ValueError as e:
        return "ValueError", str(e)
    except BaseException as e:  # noqa: BLE001
        return "other", f"{type(e).__name__}: {e}"


def one_input(data):
    fdp = atheris.FuzzedDataProvider(data)
    STATS["executions"] += 1
    if STATS["executions"] % 2000 == 0 and OUT[0]:
        with open(os.path.join(OUT[0], "stats.json"), "w") as f:
            json.dump(STATS, f)
    if fdp.ConsumeBool():
        STATS["raw_mode"] += 1
        n = fdp.ConsumeIntInRange(0, 16)
        s = "".join(ALPHABET[fdp.ConsumeIntInRange(0, len(ALPHABET) - 1)] for _ in range(n))
        kind, res = build(s)
        if kind == "other":
            violation("totality", s, f"building Shaped[np.ndarray, {s!r}] raised {res}")
        return
    STATS["token_mode"] += 1
    toks = []
    for _ in range(fdp.ConsumeIntInRange(1, 4)):
        nm = fdp.ConsumeIntInRange(0, 4)
        mods = "".join(dl.MODS[fdp.ConsumeIntInRange(0, 3)] for _ in range(nm))
        bk = BASES[fdp.ConsumeIntInRange(0, 4)]
        base = {"name": NAMES[fdp.ConsumeIntInRange(0, 3)], "int": fdp.ConsumeIntInRange(0, 5), "sym": SYMS[fdp.ConsumeIntInRange(0, 3)], "empty": None, "ellipsis": None}[bk]
        doc = "doc" if fdp.ConsumeIntInRange(0, 3) == 0 else None
        toks.append(Token(mods, bk, base, doc, fdp.ConsumeIntInRange(0, max(nm, 0))))
    seps = [WS[fdp.ConsumeIntInRange(0, 4)] if fdp.ConsumeBool() else "" for _ in range(1)] + [WS[fdp.ConsumeIntInRange(0, 4)] for _ in range(len(toks) - 1)] + [""]
    spec = dl.spec_spelling(toks, seps)
    legal = dl.spec_legal(toks)
    kind, res = build(spec)
    if kind == "other":
        violation("totality", spec, f"raised {res}")
    if legal is False:
        STATS["illegal"] += 1
        if kind != "ValueError":
            violation("illegal-accepted", spec, f"illegal spec {spec!r} was accepted")
        return
    if legal is None:
        STATS["dontcare"] += 1
        return
    STATS["legal"] += 1
    if kind != "ok":
        violation("legal-rejected", spec, f"legal spec {spec!r} rejected: {res}")
    meanings = [t.meaning() for t in toks]
    if any(m[0] in ("named", "namedvar") and m[3] for m in meanings):
        return
    STATS["probed"] += 1
    canon = dl.spec_spelling(dl.canonical_tokens(meanings))
    kc, cann = build(canon)
    for shape in PROBES:
        x = np.zeros(shape)
        exp = dl.match(meanings, shape, dl.MCtx()).allowed
        got = []
        for ann in (res, cann):
            try:
                got.append("True" if isinstance(x, ann) else "False")
            except jaxtyping.AnnotationError:
                got.append("AnnotationError")
            except BaseException as e:  # noqa: BLE001
                got.append(f"raised {type(e).__name__}")
        if got[0] != got[1] or got[0] not in exp:
            violation("meaning", spec, f"{spec!r} on shape {shape}: {got[0]}; canonical {canon!r}: {got[1]}; reference allows {sorted(exp)}")


def main():
    args = [a for a in sys.argv[1:] if not a.startswith("-")]
    if args:
        OUT[0] = args[0]
        os.makedirs(args[0], exist_ok=True)
    atheris.Setup(sys.argv, one_input)
    atheris.Fuzz()


if __name__ == "__main__":
    main()
