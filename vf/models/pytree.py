"""Reference PyTree model (DESIGN §3.3): own flatten / structure / compose / prefix / suffix over
tree *descriptions*; never calls jax.tree_util.  Real Python objects are built from the same
descriptions, so the model never has to inspect a real object.

desc := ("leaf", payload) | ("none",) | ("tuple", [d...]) | ("list", [d...])
      | ("dict", [(key, d)...])  (any insertion order; keys are strings)
      | ("nt", [d...])           (a namedtuple class per arity)
      | ("custom", aux, [d...])  (a registered custom node with hashable aux data)
struct := same shape with ("leaf",) for leaves; dict children sorted by key.
"""
from __future__ import annotations

import collections

NT = {
    0: collections.namedtuple("NT0", []),
    1: collections.namedtuple("NT1", ["p"]),
    2: collections.namedtuple("NT2", ["p", "q"]),
    3: collections.namedtuple("NT3", ["p", "q", "r"]),
}


class Custom:
    """Custom node registered with jax.tree_util by vf.gen.trees (children list + hashable aux)."""

    def __init__(self, aux, children):
        self.aux = aux
        self.children = list(children)

    def __repr__(self):
        return f"Custom({self.aux!r}, {self.children!r})"


def children(d):
    k = d[0]
    if k in ("leaf", "none"):
        return []
    if k in ("tuple", "list", "nt"):
        return list(d[1])
    if k == "dict":
        return [c for _, c in sorted(d[1], key=lambda kv: kv[0])]
    if k == "custom":
        return list(d[2])
    raise AssertionError(d)


class _KeyEnums(dict):
    """str -> member of a str-valued Enum that compares (and hashes) equal to the plain string but prints differently"""

    def __missing__(self, key):
        import enum

        self[key] = enum.Enum("Key_" + str(len(self)), {"member": key}, type=str).member
        return self[key]


KEY_ENUM = _KeyEnums()


def build(d, payload=lambda p: p, key=lambda k: k):
    """key: maps the dict keys of the description (strings) to the key objects actually used"""
    k = d[0]
    if k == "leaf":
        return payload(d[1])
    if k == "none":
        return None
    if k == "tuple":
        return tuple(build(c, payload, key) for c in d[1])
    if k == "list":
        return [build(c, payload, key) for c in d[1]]
    if k == "dict":
        return {key(kk): build(c, payload, key) for kk, c in d[1]}
    if k == "nt":
        return NT[len(d[1])](*[build(c, payload, key) for c in d[1]])
    if k == "custom":
        return Custom(d[1], [build(c, payload, key) for c in d[2]])
    raise AssertionError(d)


def structure(d, is_leaf=None):
    """Structure with every maximal subtree satisfying is_leaf (and every true leaf) as a leaf."""
    if is_leaf is not None and is_leaf(d):
        return ("leaf",)
    k = d[0]
    if k == "leaf":
        return ("leaf",)
    if k == "none":
        return ("none",)
    if k in ("tuple", "list", "nt"):
        return (k, tuple(structure(c, is_leaf) for c in d[1]))
    if k == "dict":
        return ("dict", tuple((key, structure(c, is_leaf)) for key, c in sorted(d[1], key=lambda kv: kv[0])))
    if k == "custom":
        return ("custom", d[1], tuple(structure(c, is_leaf) for c in d[2]))
    raise AssertionError(d)


def leaves(d, is_leaf=None):
    """Leaves left to right (dict children in sorted key order); None / empty containers give none."""
    if is_leaf is not None and is_leaf(d):
        return [d]
    if d[0] == "leaf":
        return [d]
    out = []
    for c in children(d):
        out.extend(leaves(c, is_leaf))
    return out


def s_children(s):
    k = s[0]
    if k in ("leaf", "none"):
        return []
    if k in ("tuple", "list", "nt"):
        return list(s[1])
    if k == "dict":
        return [c for _, c in s[1]]
    if k == "custom":
        return list(s[2])
    raise AssertionError(s)


def s_rebuild(s, new_children):
    k = s[0]
    if k in ("tuple", "list", "nt"):
        return (k, tuple(new_children))
    if k == "dict":
        return ("dict", tuple((key, c) for (key, _), c in zip(s[1], new_children)))
    if k == "custom":
        return ("custom", s[1], tuple(new_children))
    return s


def compose(s, t):
    """The structure obtained by replacing every leaf of s by t."""
    if s[0] == "leaf":
        return t
    if s[0] == "none":
        return s
    return s_rebuild(s, [compose(c, t) for c in s_children(s)])


def compose_all(structs):
    """'A B C' = A with leaves replaced by (B with leaves replaced by C)."""
    out = ("leaf",)
    for s in structs:
        out = compose(out, s)
    return out


def same_node(a, b):
    if a[0] != b[0]:
        return False
    if a[0] in ("tuple", "list", "nt"):
        return len(a[1]) == len(b[1])
    if a[0] == "dict":
        return [k for k, _ in a[1]] == [k for k, _ in b[1]]
    if a[0] == "custom":
        return a[1] == b[1] and len(a[2]) == len(b[2])
    return True


def is_prefix(p, x):
    """x has p as a prefix: leaves of p may stand for arbitrary subtrees of x."""
    if p[0] == "leaf":
        return True
    if not same_node(p, x):
        return False
    return all(is_prefix(pc, xc) for pc, xc in zip(s_children(p), s_children(x)))


def is_suffix(x, t):
    """The bottom layer of x consists of copies of t (declarative form: x is t, or x is an
    inner node all of whose children satisfy it)."""
    if x == t:
        return True
    if x[0] == "leaf":
        return False
    return all(is_suffix(c, t) for c in s_children(x))


def n_leaves(s):
    if s[0] == "leaf":
        return 1
    return sum(n_leaves(c) for c in s_children(s))


def depth(d):
    cs = children(d) if d[0] not in ("leaf", "none") else []
    return 1 + max((depth(c) for c in cs), default=0) if d[0] not in ("leaf", "none") else 0
