"""Hand-written dtype-category table, typed from the hierarchy in docs/api/array.md (and the list
of classes exported by jaxtyping/__init__.py for the precision-specific ones).  Keyed by the
*canonical* dtype name, which the harness computes without jaxtyping (np.dtype(x).name, TF
DType.name, 'prng_key' for JAX key dtypes)."""

UINT = {"uint2", "uint4", "uint8", "uint16", "uint32", "uint64"}
INT = {"int2", "int4", "int8", "int16", "int32", "int64"}
FLOAT8 = {
    "float8_e4m3b11fnuz",
    "float8_e4m3fn",
    "float8_e4m3fnuz",
    "float8_e5m2",
    "float8_e5m2fnuz",
}
FLOAT = {"bfloat16", "float16", "float32", "float64"} | FLOAT8
COMPLEX = {"complex64", "complex128"}
BOOL = {"bool"}
KEY = {"prng_key"}

ANY = None  # Shaped

TABLE = {
    "Bool": BOOL,
    "UInt": UINT,
    "Int": INT,
    "Integer": UINT | INT,
    "Float": FLOAT,
    "Complex": COMPLEX,
    "Inexact": FLOAT | COMPLEX,
    "Real": FLOAT | UINT | INT,
    "Num": UINT | INT | FLOAT | COMPLEX,
    "Key": KEY,
    "Shaped": ANY,
    # precision-specific classes: exactly their one dtype
    "UInt2": {"uint2"},
    "UInt4": {"uint4"},
    "UInt8": {"uint8"},
    "UInt16": {"uint16"},
    "UInt32": {"uint32"},
    "UInt64": {"uint64"},
    "Int2": {"int2"},
    "Int4": {"int4"},
    "Int8": {"int8"},
    "Int16": {"int16"},
    "Int32": {"int32"},
    "Int64": {"int64"},
    "Float8e4m3b11fnuz": {"float8_e4m3b11fnuz"},
    "Float8e4m3fn": {"float8_e4m3fn"},
    "Float8e4m3fnuz": {"float8_e4m3fnuz"},
    "Float8e5m2": {"float8_e5m2"},
    "Float8e5m2fnuz": {"float8_e5m2fnuz"},
    "BFloat16": {"bfloat16"},
    "Float16": {"float16"},
    "Float32": {"float32"},
    "Float64": {"float64"},
    "Complex64": {"complex64"},
    "Complex128": {"complex128"},
}

CATEGORIES = list(TABLE)
ABSTRACT = ["Bool", "UInt", "Int", "Integer", "Float", "Complex", "Inexact", "Real", "Num", "Key", "Shaped"]
assert len(CATEGORIES) == 34


def accepts(cat: str, canonical: str) -> bool:
    t = TABLE[cat]
    return True if t is None else canonical in t


def intersect(c1: str, c2: str):
    """Documented nesting law: acceptable dtypes are the intersection.  None = any."""
    a, b = TABLE[c1], TABLE[c2]
    if a is None:
        return b
    if b is None:
        return a
    return a & b


def canonical_numpy(dt) -> str:
    """Canonical name of a numpy dtype, without jaxtyping."""
    import numpy as np

    d = np.dtype(dt)
    if d.names is not None:  # structured
        return str(d)
    return d.name


# scalar kinds of the Python builtins (C15): which abstract categories contain them
SCALAR_KIND = {
    "bool": {"Bool", "Shaped"},
    "int": {"Int", "Integer", "Real", "Num", "Shaped"},
    "float": {"Float", "Inexact", "Real", "Num", "Shaped"},
    "complex": {"Complex", "Inexact", "Num", "Shaped"},
}
