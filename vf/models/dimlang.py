"""Reference model of the dim-string language, written from docs/api/array.md and the text of
properties C01/C02/C04/C14 -- not from jaxtyping/_array_types.py.  It shares no code with the
implementation: tokens are *constructed* (so their meaning is known without parsing), symbolic
expressions are small ASTs with their own evaluator, broadcasting is re-implemented.

Three layers:
  1. tokens:   Token -> spelling / legal? / meaning
  2. matcher:  sequential bind-or-compare semantics of one check against a context
  3. solver:   order-free "exists one assignment" decision for a whole call (C02/C13)
"""
from __future__ import annotations

import itertools
import keyword
from dataclasses import dataclass, field
from typing import Any, Optional

# ------------------------------------------------------------------------------------------
# symbolic expressions
# ------------------------------------------------------------------------------------------
# ("name", n) | ("int", k) | ("bin", op, l, r) | ("call", f, l, r) | ("hole", arg) | ("holeattr", arg, attr)


class Unbound(Exception):
    pass


def expr_render(e, top=True) -> str:
    k = e[0]
    if k == "name":
        return e[1]
    if k == "int":
        return str(e[1])
    if k == "bin":
        s = f"{expr_render(e[2], False)}{e[1]}{expr_render(e[3], False)}"
        return s if top else f"({s})"
    if k == "call":
        return f"{e[1]}({expr_render(e[2])},{expr_render(e[3])})"
    if k == "hole":
        return "{" + e[1] + "}"
    if k == "holeattr":
        return "{" + e[1] + "." + e[2] + "}"
    if k == "holeidx":
        return "{" + e[1] + "." + e[2] + "[" + str(e[3]) + "]}"
    raise AssertionError(e)


def expr_names(e):
    k = e[0]
    if k == "name":
        return {e[1]}
    if k in ("bin", "call"):
        return expr_names(e[2]) | expr_names(e[3])
    return set()


def expr_holes(e):
    k = e[0]
    if k in ("hole", "holeattr", "holeidx"):
        return {e[1]}
    if k in ("bin", "call"):
        return expr_holes(e[2]) | expr_holes(e[3])
    return set()


def expr_eval(e, single: dict, args: dict) -> int:
    k = e[0]
    if k == "name":
        if e[1] not in single:
            raise Unbound(e[1])
        return single[e[1]]
    if k == "int":
        return e[1]
    if k == "bin":
        a = expr_eval(e[2], single, args)
        b = expr_eval(e[3], single, args)
        op = e[1]
        if op == "+":
            return a + b
        if op == "-":
            return a - b
        if op == "*":
            return a * b
        if op == "//":
            return a // b
        if op == "/":
            return a / b
        raise AssertionError(op)
    if k == "call":
        a = expr_eval(e[2], single, args)
        b = expr_eval(e[3], single, args)
        return min(a, b) if e[1] == "min" else max(a, b)
    if k == "hole":
        if e[1] not in args:
            raise Unbound("{" + e[1] + "}")
        return args[e[1]]
    if k == "holeattr":
        if e[1] not in args:
            raise Unbound("{" + e[1] + "}")
        return getattr(args[e[1]], e[2])
    if k == "holeidx":
        if e[1] not in args:
            raise Unbound("{" + e[1] + "}")
        return getattr(args[e[1]], e[2])[e[3]]
    raise AssertionError(e)


def expr_is_symbolic(e) -> bool:
    """A rendered expression is a symbolic axis iff it is neither an identifier nor an int."""
    return e[0] not in ("name", "int")


# ------------------------------------------------------------------------------------------
# tokens
# ------------------------------------------------------------------------------------------
MODS = "#*_?"


@dataclass(frozen=True)
class Token:
    """One axis token.  `mods` is the sequence of modifier characters as written (order and
    repeats preserved); `doc` an optional documentation name written as 'doc=' at position
    `docpos` among the modifiers; base_kind in name|int|sym|empty|ellipsis."""

    mods: str
    base_kind: str
    base: Any  # str for name, int for int, expr tuple for sym, None otherwise
    doc: Optional[str] = None
    docpos: int = 0

    def spelling(self) -> str:
        if self.base_kind == "name":
            b = self.base
        elif self.base_kind == "int":
            b = str(self.base)
        elif self.base_kind == "sym":
            b = expr_render(self.base)
        elif self.base_kind == "empty":
            b = ""
        else:
            b = "..."
        mods = self.mods
        if self.doc is not None:
            p = min(self.docpos, len(mods))
            return mods[:p] + self.doc + "=" + mods[p:] + b
        return mods + b

    # -- documented legality rules ---------------------------------------------------
    def legal(self) -> Optional[bool]:
        """True/False per the documented rules; None = the documentation leaves it open
        (don't-care: only totality is required)."""
        ms = self.mods
        if len(set(ms)) != len(ms):
            return False  # repeated modifier
        if self.base_kind == "ellipsis":
            return ms == "" and self.doc is None  # '...' takes no modifiers
        if self.base_kind == "empty":
            if "_" not in ms:
                return None  # a bare '*', '?', 'doc=' ... : not documented
            if "#" in ms:
                return False  # '#_' (and the trailing-'#' spelling '_#')
            return True
        if self.base_kind in ("int", "sym"):
            return not (set(ms) & set("*_?"))
        # name
        if "_" in ms and "#" in ms:
            return False
        return True

    def meaning(self):
        assert self.legal()
        ms = self.mods
        if self.base_kind == "ellipsis":
            return ("anonvar",)
        if "_" in ms:
            return ("anonvar",) if "*" in ms else ("anon",)
        if self.base_kind == "int":
            return ("fixed", self.base, "#" in ms)
        if self.base_kind == "sym":
            return ("sym", self.base, "#" in ms)
        if "*" in ms:
            return ("namedvar", self.base, "#" in ms, "?" in ms)
        return ("named", self.base, "#" in ms, "?" in ms)

    def is_multi(self) -> bool:
        return self.base_kind == "ellipsis" or "*" in self.mods


def is_multi_meaning(m) -> bool:
    return m[0] in ("anonvar", "namedvar")


def spec_legal(tokens) -> Optional[bool]:
    """Legality of a whole spec (sequence of tokens)."""
    res = True
    for t in tokens:
        l = t.legal()
        if l is False:
            return False
        if l is None:
            res = None
    if sum(1 for t in tokens if t.is_multi()) > 1:
        return False
    return res


def spec_spelling(tokens, seps=None) -> str:
    if seps is None:
        return " ".join(t.spelling() for t in tokens)
    # seps: len(tokens)+1 whitespace strings (leading, between..., trailing); inner ones non-empty
    out = [seps[0]]
    for i, t in enumerate(tokens):
        out.append(t.spelling())
        out.append(seps[i + 1])
    return "".join(out)


def canonical_tokens(meanings):
    """Canonical spelling of a list of meanings (used as the metamorphic reference)."""
    out = []
    for m in meanings:
        k = m[0]
        if k == "anon":
            out.append(Token("_", "empty", None))
        elif k == "anonvar":
            out.append(Token("", "ellipsis", None))
        elif k == "fixed":
            out.append(Token("#" if m[2] else "", "int", m[1]))
        elif k == "sym":
            out.append(Token("#" if m[2] else "", "sym", m[1]))
        elif k == "named":
            out.append(Token(("#" if m[2] else "") + ("?" if m[3] else ""), "name", m[1]))
        else:
            out.append(
                Token("*" + ("#" if m[2] else "") + ("?" if m[3] else ""), "name", m[1])
            )
    return out


def valid_identifier(s: str) -> bool:
    return s.isidentifier() and not keyword.iskeyword(s)


# ------------------------------------------------------------------------------------------
# broadcasting (own implementation)
# ------------------------------------------------------------------------------------------
def broadcast(a: tuple, b: tuple):
    """numpy-style broadcast of two shapes, or None if impossible."""
    n = max(len(a), len(b))
    a2 = (1,) * (n - len(a)) + tuple(a)
    b2 = (1,) * (n - len(b)) + tuple(b)
    out = []
    for x, y in zip(a2, b2):
        if x == 1:
            out.append(y)
        elif y == 1:
            out.append(x)
        elif x == y:
            out.append(x)
        else:
            return None
    return tuple(out)


# ------------------------------------------------------------------------------------------
# sequential matcher
# ------------------------------------------------------------------------------------------
@dataclass
class MCtx:
    single: dict = field(default_factory=dict)  # name -> int
    variadic: dict = field(default_factory=dict)  # name -> (bcast, shape)
    structs: dict = field(default_factory=dict)  # structure name -> structure (model repr)
    args: dict = field(default_factory=dict)

    def copy(self):
        return MCtx(dict(self.single), dict(self.variadic), dict(self.structs), dict(self.args))

    def bindings(self):
        """What print_bindings() must show: axis name -> int | shape tuple."""
        out = {k: v for k, v in self.single.items() if not k.startswith("~~delete~~")}
        for k, (_, shp) in self.variadic.items():
            if not k.startswith("~~delete~~"):
                out["*" + k] = tuple(shp)  # plain and variadic names are separate namespaces ('a' and '*a' may coexist)
        return out


TRUE, FALSE, ANNERR = "True", "False", "AnnotationError"


@dataclass
class Outcome:
    allowed: frozenset  # subset of {TRUE, FALSE, ANNERR}
    ctx: Optional[MCtx]  # context after the check if it is accepted (else unchanged)
    tentative: int = 0  # number of new bindings made before the first problem (C04)
    classes: tuple = ()


def match(meanings, shape, ctx: MCtx, label: Optional[str] = None, in_structured: int = 0) -> Outcome:
    """Decide one shape check sequentially.

    `label`: the current '?' leaf label (None outside a structured PyTree);
    `in_structured`: number of enclosing structured PyTrees (>=2 -> '?' is ambiguous).
    Returns the set of acceptable verdicts: exactly one, except where the statement does not
    order two simultaneous reasons (unbound symbolic vs. mismatch)."""
    shape = tuple(shape)
    new = ctx.copy()
    classes = []
    mism = False
    unb = False
    either_true_ann = False
    tentative = 0
    first_problem = False

    idx = [i for i, m in enumerate(meanings) if is_multi_meaning(m)]
    assert len(idx) <= 1
    n = len(meanings)
    has_unbindable = False  # '?' without a label or symbolic mentioning unbound names: see below

    if not idx:
        rank_ok = len(shape) == n
    else:
        rank_ok = len(shape) >= n - 1
    if not rank_ok:
        # nothing else can be compared; an AnnotationError is also acceptable if some axis
        # could not have been evaluated anyway
        allowed = {FALSE}
        for m in meanings:
            if m[0] == "sym" and _sym_unbound(m[1], ctx):
                allowed.add(ANNERR)
            if m[0] in ("named", "namedvar") and m[3] and label is None:
                allowed.add(ANNERR)
        return Outcome(frozenset(allowed), None, 0, ("rank-mismatch",))

    if idx:
        i = idx[0]
        nsuf = n - i - 1
        prefix = list(zip(meanings[:i], shape[:i]))
        suffix = list(zip(meanings[i + 1 :], shape[len(shape) - nsuf :])) if nsuf else []
        var_shape = shape[i : len(shape) - nsuf]
        single_axes = prefix + suffix
        if prefix:
            classes.append("var-prefix")
        if suffix:
            classes.append("var-suffix")
    else:
        single_axes = list(zip(meanings, shape))
        var_shape = None

    def problem():
        nonlocal first_problem
        first_problem = True

    for m, size in single_axes:
        k = m[0]
        if k == "anon":
            continue
        if size == 0:
            classes.append("size0")
        bcast = m[2] if k in ("fixed", "sym") else m[2]
        if bcast and size == 1:
            classes.append("bcast-1")
            if k == "sym" and _sym_unbound(m[1], new):
                # '#' accepts size 1 / unbound name must raise: the statement gives both
                either_true_ann = True
            if k == "named" and m[3] and label is None:
                either_true_ann = True
            continue
        if k == "fixed":
            if m[1] != size:
                mism = True
                problem()
        elif k == "sym":
            classes.append("sym-bcast" if bcast else "sym")
            try:
                v = expr_eval(m[1], new.single, new.args)
            except Unbound:
                unb = True
                classes.append("sym-unbound")
                problem()
                continue
            if v != size:
                mism = True
                problem()
        elif k == "named":
            name = m[1]
            if m[3]:
                if label is None or in_structured >= 2:
                    unb = True
                    problem()
                    continue
                name = label + name
            if name in new.single:
                classes.append("named-bound")
                if new.single[name] != size:
                    mism = True
                    problem()
            else:
                classes.append("named-new")
                new.single[name] = size
                if not first_problem:
                    tentative += 1
        else:
            raise AssertionError(m)

    if idx:
        m = meanings[idx[0]]
        if m[0] == "namedvar":
            name = m[1]
            ok_label = True
            if m[3]:
                if label is None or in_structured >= 2:
                    unb = True
                    problem()
                    ok_label = False
                else:
                    name = label + name
            if ok_label:
                bnow = m[2]
                vs = tuple(var_shape)
                if 0 in vs:
                    classes.append("size0")
                if name not in new.variadic:
                    classes.append("var-new")
                    new.variadic[name] = (bnow, vs)
                    if not first_problem:
                        tentative += 1
                else:
                    bprev, prev = new.variadic[name]
                    classes.append(
                        f"var-{'b' if bnow else 'p'}-after-{'b' if bprev else 'p'}"
                        + ("-lower-rank" if len(vs) < len(prev) else "")
                        + ("-higher-rank" if len(vs) > len(prev) else "")
                    )
                    if bprev:
                        bs = broadcast(vs, prev)
                        if bs is None:
                            mism = True
                        elif not bnow and bs != vs:
                            mism = True
                        else:
                            new.variadic[name] = (bnow, bs)
                    else:
                        if bnow:
                            bs = broadcast(vs, prev)
                            if bs is None or bs != prev:
                                mism = True
                        else:
                            if vs != prev:
                                mism = True
                    if mism:
                        problem()
        else:
            classes.append("anonvar")

    if mism and unb:
        allowed = {FALSE, ANNERR}
    elif mism:
        allowed = {FALSE}
        if either_true_ann:
            allowed.add(ANNERR)
    elif unb:
        allowed = {ANNERR}
    else:
        allowed = {TRUE}
        if either_true_ann:
            allowed.add(ANNERR)
    return Outcome(
        frozenset(allowed), new if TRUE in allowed else None, tentative, tuple(sorted(set(classes)))
    )


def _sym_unbound(e, ctx: MCtx) -> bool:
    return any(nm not in ctx.single for nm in expr_names(e)) or any(
        hn not in ctx.args for hn in expr_holes(e)
    )


# ------------------------------------------------------------------------------------------
# order-free solver (C02 / C13): exists one assignment for a whole call?
# ------------------------------------------------------------------------------------------
def satisfiable(checks, args=None) -> Optional[bool]:
    """checks: list of (meanings, shape).  Decide whether ONE assignment of sizes to names and
    shapes to *names makes every shape match.  Shares no code with `match`.
    Symbolic axes must only mention names that some check binds (else returns None)."""
    args = args or {}
    # 1. ranks and splitting
    named_uses = {}  # name -> list of (size, bcast)
    var_uses = {}  # name -> list of (shape, bcast)
    sym_uses = []  # (expr, size, bcast)
    for meanings, shape in checks:
        shape = tuple(shape)
        n = len(meanings)
        idx = [i for i, m in enumerate(meanings) if is_multi_meaning(m)]
        if not idx:
            if len(shape) != n:
                return False
            pairs = list(zip(meanings, shape))
        else:
            if len(shape) < n - 1:
                return False
            i = idx[0]
            nsuf = n - i - 1
            cut = len(shape) - nsuf
            pairs = list(zip(meanings[:i], shape[:i])) + list(zip(meanings[i + 1 :], shape[cut:]))
            mv = meanings[i]
            if mv[0] == "namedvar":
                assert not mv[3]
                var_uses.setdefault(mv[1], []).append((shape[i:cut], mv[2]))
        for m, size in pairs:
            if m[0] == "anon":
                pass
            elif m[0] == "fixed":
                if not (m[1] == size or (m[2] and size == 1)):
                    return False
            elif m[0] == "named":
                assert not m[3]
                named_uses.setdefault(m[1], []).append((size, m[2]))
            elif m[0] == "sym":
                sym_uses.append((m[1], size, m[2]))
    # 2. single names: the constraining sizes are all uses except '#'-uses of size 1
    assign = {}
    for name, uses in named_uses.items():
        strict = {s for (s, b) in uses if not (b and s == 1)}
        if len(strict) > 1:
            return False
        if len(strict) == 1:
            assign[name] = next(iter(strict))
        # else: only '#' uses of size 1 -> any size works; leave unassigned (value free)
    # 3. variadic names
    for name, uses in var_uses.items():
        plain = {tuple(s) for (s, b) in uses if not b}
        if len(plain) > 1:
            return False
        bs = [tuple(s) for (s, b) in uses if b]
        if plain:
            target = next(iter(plain))
            for s in bs:
                if broadcast(s, target) != target:
                    return False
        else:
            acc = ()
            first = True
            for s in bs:
                acc = s if first else broadcast(acc, s)
                first = False
                if acc is None:
                    return False
    # 4. symbolic axes under the (unique) assignment
    for e, size, b in sym_uses:
        if b and size == 1:
            continue
        try:
            v = expr_eval(e, assign, args)
        except Unbound:
            return None
        if v != size:
            return False
    return True
