"""Reference decision of one PyTree[<array annotation>, structure?] check over a tree description whose
leaf payloads are shapes (lists/tuples of ints) or the string 'x' (a non-array object)."""
from __future__ import annotations

from vf.models import dimlang as dl
from vf.models import pytree as pt


def model_pytree_check(m: dl.MCtx, meanings, sname, desc, accept_payload=None, single_position=False):
    """accept_payload(payload) -> True for leaves accepted without a shape check (e.g. the int arm of Union[int, Arr]);
    single_position: every array is checked under the label of leaf 0 and the structure is a single leaf (the
    structure-less PyTree nested in a structured one: the whole tree of arrays is one leaf)."""
    return _model_pytree_check(m, meanings, sname, desc, accept_payload, single_position)


def _model_pytree_check(m, meanings, sname, desc, accept_payload, single_position):
    """-> (allowed verdicts, context after acceptance, tentative bindings before the first problem,
    name of a newly bound structure or None)."""
    if desc[0] == "none":
        return {dl.TRUE}, m, 0, None  # a top-level None is always accepted and binds nothing
    m2 = m.copy()
    tent = 0
    new_struct = None
    lvs = pt.leaves(desc)
    struct = ("leaf",) if single_position else pt.structure(desc)
    problems = set()
    label_struct = None
    if sname:
        pieces = sname.split()
        label_struct = sname
        if len(pieces) == 1:
            if sname in m2.structs:
                if m2.structs[sname] != struct:
                    problems.add(dl.FALSE)
            else:
                m2.structs[sname] = struct
                new_struct = sname
                tent += 1
        else:
            if any(p not in m2.structs for p in pieces):
                problems.add(dl.ANNERR)
            elif pt.compose_all([m2.structs[p] for p in pieces]) != struct:
                problems.add(dl.FALSE)
    if not problems:
        for i, lf in enumerate(lvs):
            if accept_payload is not None and accept_payload(lf[1]):
                continue
            if isinstance(lf[1], str):
                problems.add(dl.FALSE)
                break
            if single_position:
                i = 0
            label = f"(Leaf {i} in structure {label_struct}) " if label_struct else None
            o = dl.match(meanings, lf[1], m2, label=label, in_structured=1 if label_struct else 0)
            if o.allowed == {dl.TRUE}:
                tent += sum(1 for k in o.ctx.single if k not in m2.single) + sum(1 for k in o.ctx.variadic if k not in m2.variadic)
                m2 = o.ctx
            elif dl.TRUE in o.allowed:
                problems |= set(o.allowed)  # '#'-size-1 on an unbound symbolic axis: either
                m2 = o.ctx
            else:
                problems |= set(o.allowed)
                break
    if not problems:
        return {dl.TRUE}, m2, tent, new_struct
    if dl.TRUE in problems:
        return problems, m2, tent, new_struct
    return problems, m, tent, new_struct
