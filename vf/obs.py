"""Observation helpers: everything is read through the public surface of jaxtyping."""
from __future__ import annotations

import contextlib
import io
import re

import jaxtyping
from jaxtyping import AnnotationError

_LINE = re.compile(r"^((?:\(Leaf \d+ in structure [^)]*\) )?[^\W\d]\w*)=(.*)$", re.S)
H_AXES = "The current values for each jaxtyping axis annotation are as follows."
H_STRUCT = "The current values for each jaxtyping PyTree structure annotation are as follows."


def parse_bindings(text: str):
    """Parse the text produced by print_bindings() / the tail of a TypeCheckError message.
    Returns (axes: name -> int | tuple, structs: name -> str)."""
    axes, structs = {}, {}
    cur = None
    for line in text.split("\n"):
        if line.strip() == H_AXES:
            cur = axes
            continue
        if line.strip() == H_STRUCT:
            cur = structs
            continue
        if cur is None or not line.strip():
            continue
        m = _LINE.match(line)
        if not m:
            # continuation of a multi-line value (PyTreeDef reprs do not contain newlines, but be safe)
            continue
        name, val = m.group(1), m.group(2)
        if cur is axes:
            val = val.strip()
            if val.startswith("("):
                # a '*name' binding (printed without the star): kept under '*name', plain and variadic names being
                # separate namespaces.  A name printed twice with the same kind of value would be a collision.
                inner = val.strip("()").strip()
                key = "*" + name
                if key in cur:
                    cur[key + "#dup"] = "printed twice"
                try:
                    cur[key] = tuple(int(x) for x in inner.split(",") if x.strip()) if inner else ()
                except ValueError:
                    cur[key] = "not-a-shape:" + val[:60]  # whatever is listed there is not an axis binding: compares unequal to any model
            else:
                if name in cur:
                    cur[name + "#dup"] = "printed twice"
                try:
                    cur[name] = int(val)
                except ValueError:
                    cur[name] = "not-a-size:" + val[:60]
        else:
            cur[name] = val
    return axes, structs


def bindings():
    buf = io.StringIO()
    with contextlib.redirect_stdout(buf):
        jaxtyping.print_bindings()
    return parse_bindings(buf.getvalue())


def raw_bindings() -> str:
    buf = io.StringIO()
    with contextlib.redirect_stdout(buf):
        jaxtyping.print_bindings()
    return buf.getvalue()


def verdict(value, annotation) -> str:
    try:
        return "True" if isinstance(value, annotation) else "False"
    except AnnotationError:
        return "AnnotationError"
    except Exception as e:  # any other exception out of an isinstance check is a wrong answer
        return f"raised {type(e).__name__}: {e}"[:300]


class Duck:
    """Duck-typed array: anything with .shape and .dtype (docs/api/array.md)."""

    def __init__(self, shape, dtype):
        self.shape = tuple(shape)
        self.dtype = dtype

    def __repr__(self):
        return f"Duck({self.shape}, {self.dtype!r})"


class TorchLikeDtype:
    """dtype object whose repr is 'torch.float32' (the 'everyone else' path)."""

    def __init__(self, name, prefix="torch."):
        self._n = name
        self._p = prefix

    def __repr__(self):
        return self._p + self._n


class EnumLikeDtype(TorchLikeDtype):
    """a dtype object printing like 'paddle.float32' that ALSO has a .name (an enum / pybind11-enum member: 'FP32'): the dtype's name is
    still the tail of its repr"""

    def __init__(self, name, prefix="paddle."):
        super().__init__(name, prefix)
        self.name = "DT_" + name.upper()
        self.value = 7


def stack_depth() -> int:
    """Depth of the context stack, observed only through public behaviour is impossible; this
    helper reads the private storage and is used solely for harness hygiene assertions (a
    non-empty stack at the start of a case is a harness error, never a violation)."""
    from jaxtyping import _storage

    try:
        return len(getattr(_storage._shape_storage, "memo_stack", []))
    except Exception:
        return 0


def reset_state():
    """Harness hygiene between cases: whatever an earlier case (or a defect it exposed) left behind must
    not leak into the next case, otherwise failures would be attributed to the wrong input and would not
    replay.  Touches jaxtyping's private storage on purpose; never used to decide a property."""
    import jaxtyping
    from jaxtyping import _storage

    # (best effort: if the private storage is organised differently in the tree under test, nothing is reset and the checks judge
    # by behaviour alone)
    try:
        if hasattr(_storage._shape_storage, "memo_stack"):
            del _storage._shape_storage.memo_stack[:]
    except Exception:
        pass
    for name, val in (("_treepath_storage", None), ("_treeflatten_storage", False)):
        try:
            getattr(_storage, name).value = val
        except Exception:
            pass
    try:
        jaxtyping.config.update("jaxtyping_disable", False)
        jaxtyping.config.update("jaxtyping_remove_typechecker_stack", False)
    except Exception:
        pass
