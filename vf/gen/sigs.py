"""Signature / program generator (DESIGN §3.4): `def` source text with all five parameter kinds,
defaults, colliding names; compiled with exec in a namespace holding annotation and default objects.
The undecorated twin is kept for differential comparison."""
from __future__ import annotations

import sys

import inspect

import numpy as np
from hypothesis import strategies as st

from jaxtyping import Shaped

# names the wrapper generates or uses internally, plus ordinary ones
NAME_POOL = [
    "x", "y", "z", "T0", "T1", "T2", "default0", "default1", "ret0", "ret1", "fn0", "self", "cls", "args", "kwargs",
    "bound", "memos", "fn", "out", "name", "module", "typechecker", "signature", "param_fn", "full_fn", "check_single_arg",
    "wrapped_fn", "scope", "config", "e",
]
FN_NAMES = ["f", "T0", "default0", "ret0", "fn0", "check_single_arg", "wrapped_fn", "x"]

ANN_KINDS = ["none", "int", "str", "arr", "fwd", "int", "arr", "fwdl"]  # fwd / fwdl: partly stringified annotations, Optional["VfNode"] / list["VfNode"]


class Obj:
    """Fresh identity-carrying values."""

    def __init__(self, tag):
        self.tag = tag

    def __repr__(self):
        return f"Obj({self.tag})"


def good_value(kind, i):
    if kind == "fwd":
        return Obj(i)
    if kind == "fwdl":
        return [Obj(i)]
    if kind == "int":
        return 1000 + i  # > 256: not interned small ints, identity is meaningful
    if kind == "str":
        return f"str-value-{i}"
    if kind == "arr":
        return np.zeros((2 + i % 3,))
    return Obj(i)


def bad_value(kind, i):
    if kind in ("fwd", "fwdl"):
        return f"not-a-node-{i}"
    if kind == "int":
        return f"not-an-int-{i}"
    if kind == "str":
        return 5000 + i
    if kind == "arr":
        return np.zeros((2, 2, 2, 2, 2))  # wrong rank for every array annotation used here
    raise AssertionError(kind)


def ann_object(kind, i):
    if kind == "int":
        return int
    if kind == "str":
        return str
    if kind == "arr":
        return Shaped[np.ndarray, f"ax{i}"]
    if kind == "obj":
        return Obj
    if kind == "fwd":
        import typing

        return typing.Optional["VfNode"]  # (the forward reference resolves in the function's module, VfNode = Obj)
    if kind == "fwdl":
        return list["VfNode"]
    if kind == "iterator":
        import collections.abc

        return collections.abc.Iterator[int]  # (typeguard wraps a returned generator in a checking proxy if it is left to handle it)
    return None


def ann_object_resolved(kind, i):
    """for annotations assigned as objects (lambda.__annotations__): the forward reference already resolved"""
    if kind == "fwd":
        import typing

        return typing.Optional[Obj]
    if kind == "fwdl":
        return list[Obj]
    return ann_object(kind, i)


@st.composite
def signature(draw, *, max_each=2, allow_var=True, first=None):
    """-> list of params: dict(name, kind, ann, has_default).  kind in po|pk|va|ko|vk."""
    n_po = draw(st.integers(0, max_each))
    n_pk = draw(st.integers(0, max_each))
    n_ko = draw(st.integers(0, max_each))
    va = allow_var and draw(st.integers(0, 2)) == 0
    vk = allow_var and draw(st.integers(0, 2)) == 0
    total = n_po + n_pk + n_ko + int(va) + int(vk) + (1 if first else 0)
    names = draw(st.permutations(NAME_POOL))
    names = [n for n in names if n != first][:total]
    it = iter(names)
    params = []
    if first:
        params.append({"name": first, "kind": "pk", "ann": "none", "has_default": False})
    # defaults must be trailing among positional parameters
    n_pos = n_po + n_pk
    first_default = draw(st.integers(0, n_pos)) if n_pos else 0
    for j in range(n_po):
        params.append({"name": next(it), "kind": "po", "ann": draw(st.sampled_from(ANN_KINDS)), "has_default": j >= first_default})
    for j in range(n_pk):
        params.append({"name": next(it), "kind": "pk", "ann": draw(st.sampled_from(ANN_KINDS)), "has_default": (n_po + j) >= first_default})
    if first and any(p["has_default"] for p in params[1:] if p["kind"] == "po"):
        pass
    if va:
        params.append({"name": next(it), "kind": "va", "ann": draw(st.sampled_from(["none", "int", "str"])), "has_default": False})
    for _ in range(n_ko):
        params.append({"name": next(it), "kind": "ko", "ann": draw(st.sampled_from(ANN_KINDS)), "has_default": draw(st.booleans())})
    if vk:
        params.append({"name": next(it), "kind": "vk", "ann": draw(st.sampled_from(["none", "int", "str"])), "has_default": False})
    # `first` (self/cls) is positional-or-keyword and precedes positional-only ones only if there are none
    if first and any(p["kind"] == "po" for p in params):
        params[0]["kind"] = "po"
    return params


def render(params, fname, *, kind="def", ret_ann=None, ns=None):
    """Source text + namespace.  Body: `return __body(<dict of received arguments>)`."""
    ns = ns if ns is not None else {}
    pieces = []
    seen_po = False
    emitted_star = False
    recv = []
    for i, p in enumerate(params):
        if p["kind"] != "po" and seen_po:
            pieces.append("/")
            seen_po = False
        if p["kind"] == "po":
            seen_po = True
        if p["kind"] == "ko" and not emitted_star:
            pieces.append("*")
            emitted_star = True
        s = p["name"]
        if p["kind"] == "va":
            s = "*" + s
            emitted_star = True
        if p["kind"] == "vk":
            s = "**" + s
        a = ann_object(p["ann"], i)
        if p["ann"] in ("fwd", "fwdl"):
            ns["VfNode"] = Obj
        if a is not None and kind != "lambda":
            ns[f"__A{i}"] = a
            s += f": __A{i}"
        if p["has_default"]:
            ns[f"__D{i}"] = good_value(p["ann"], 100 + i)
            s += f" = __D{i}" if kind != "lambda" else f"=__D{i}"
        pieces.append(s)
        recv.append(f"{p['name']!r}: {p['name']}")
    if seen_po:
        pieces.append("/")
    argstr = ", ".join(pieces)
    body_arg = "{" + ", ".join(recv) + "}"
    retstr = ""
    if ret_ann is not None and kind != "lambda":
        ns["__R"] = ann_object(ret_ann, 50)
        retstr = " -> __R"
    if kind == "def":
        src = f"def {fname}({argstr}){retstr}:\n    'docstring of the original'\n    return __body({body_arg})\n"
    elif kind == "async":
        src = f"async def {fname}({argstr}){retstr}:\n    'docstring of the original'\n    return __body({body_arg})\n"
    elif kind == "lambda":
        src = f"{fname} = lambda {argstr}: __body({body_arg})\n"
    else:
        raise AssertionError(kind)
    return src, ns


def compile_fn(src, ns, fname, postponed=True):
    """postponed=True: the generated module behaves as if it began with 'from __future__ import annotations' (all annotations
    are strings resolved through the module's globals); False: annotations are evaluated objects."""
    import __future__

    ns.setdefault("__name__", "vf_generated_sig")
    if ns["__name__"] == "vf_generated_sig" and "vf_generated_sig" not in sys.modules:
        # the generated functions claim to live in an importable module in which the forward-referenced name exists (typecheckers
        # resolve relative forward references through sys.modules[func.__module__])
        import types

        mod = types.ModuleType("vf_generated_sig")
        mod.VfNode = Obj
        sys.modules["vf_generated_sig"] = mod
    exec(compile(src, "<vf-sig>", "exec", flags=__future__.annotations.compiler_flag if postponed else 0, dont_inherit=True), ns)
    return ns[fname]


def make_args(params, *, bad_at=None, style_seed=0, n_va=2, n_vk=2, omit_defaults=False, force_shadow=False, bad_none=False):
    """Build (args, kwargs, expected_received) for a binding call.  bad_at = index of the parameter
    that receives an ill-typed value (None = all well typed).  Positional-or-keyword parameters are passed
    positionally or by keyword depending on style_seed."""
    args, kwargs, recv = [], {}, {}
    kw_started = False
    for i, p in enumerate(params):
        bad = bad_at == i
        k = p["kind"]
        if k in ("po", "pk", "ko"):
            if p["has_default"] and omit_defaults and not bad:
                # later positional ones must then go by keyword
                if k != "ko":
                    kw_started = True
                recv[p["name"]] = ("default", i)
                continue
            v = (None if bad_none else bad_value(p["ann"], i)) if bad else good_value(p["ann"], i)  # (an explicit None is ill typed for int/str/array)
            recv[p["name"]] = v
            if k == "po":
                if kw_started:
                    return None  # cannot skip a positional-only default and pass a later one
                args.append(v)
            elif k == "pk":
                by_kw = kw_started or ((style_seed >> i) & 1)
                if by_kw:
                    kw_started = True
                    kwargs[p["name"]] = v
                else:
                    args.append(v)
            else:
                kwargs[p["name"]] = v
        elif k == "va":
            if kw_started:
                recv[p["name"]] = ()
                continue
            vs = [bad_value(p["ann"], i + j) if bad else good_value(p["ann"], i + 10 * j) for j in range(n_va)]
            args.extend(vs)
            recv[p["name"]] = tuple(vs)
        else:
            # extra keywords are spelled like the identifiers the wrapper generates for itself (ret0, T0, ...) unless
            # that name is a parameter of this signature
            taken = {q["name"] for q in params}
            pool = [n for n in ("ret0", "T0", "default0", "fn0", "ret1", "bound", "memos", "extra_kw0", "extra_kw1") if n not in taken]
            start = style_seed % max(1, len(pool) - n_vk + 1)
            vs = {pool[start + j]: (bad_value(p["ann"], i + j) if bad else good_value(p["ann"], i + 10 * j)) for j in range(min(n_vk, len(pool)))}
            # a keyword spelled like a positional-only parameter is legal and lands in **kwargs
            # (only for positional-only parameters that ARE passed positionally: leaving a defaulted positional-only
            # parameter out while **kwargs carries its name trips a CPython bug in inspect.Signature.bind -- a listed
            # known finding of C07, reachable through force_shadow only)
            po_names = [q["name"] for q in params if q["kind"] == "po" and (force_shadow or not (q["has_default"] and omit_defaults))]
            if po_names and (style_seed % 2 == 0 or force_shadow):
                vs[po_names[style_seed % len(po_names)]] = bad_value(p["ann"], i + 7) if bad else good_value(p["ann"], i + 70)
            kwargs.update(vs)
            recv[p["name"]] = vs
    return args, kwargs, recv
