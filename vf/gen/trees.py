"""Hypothesis strategies for tree descriptions (see vf.models.pytree) and their real counterparts."""
from __future__ import annotations

import jax.tree_util as jtu
from hypothesis import strategies as st

from vf.models import pytree as pt

# register the custom node once (children, aux)
try:
    jtu.register_pytree_node(
        pt.Custom,
        lambda c: (tuple(c.children), c.aux),
        lambda aux, ch: pt.Custom(aux, list(ch)),
    )
except ValueError:
    pass

KEYS = ["k", "a", "z", "b2"]


@st.composite
def tree_desc(draw, leaf=st.just(0), *, max_depth=4, max_leaves=12, allow=("tuple", "list", "dict", "none", "nt", "custom"),
              min_leaves=0, _depth=0, _budget=None):
    """A tree description; `leaf` is a strategy for leaf payloads."""
    budget = _budget if _budget is not None else [max_leaves]
    containers = [k for k in allow if k != "none"]
    if _depth < max_depth and budget[0] > 1:
        # Hypothesis favours the first alternatives: containers first near the root, leaves first deeper down
        kinds = (containers * 2 + ["leaf"]) if _depth < 1 else (["leaf", "leaf"] + containers + ["leaf"])
    else:
        kinds = ["leaf", "leaf"]
    if "none" in allow and _depth > 0:
        kinds.append("none")
    k = draw(st.sampled_from(kinds))
    if _depth == 0 and min_leaves > 1 and k == "leaf":
        k = draw(st.sampled_from([x for x in allow if x != "none"]))
    if k == "leaf":
        budget[0] -= 1
        return ("leaf", draw(leaf))
    if k == "none":
        return ("none",)
    n = draw(st.sampled_from([2, 3, 1, 0, 2, 3, 1]))
    kids = []
    for _ in range(n):
        if budget[0] <= 0:
            break
        kids.append(draw(tree_desc(leaf, max_depth=max_depth, allow=allow, _depth=_depth + 1, _budget=budget)))
    if k in ("tuple", "list"):
        return (k, kids)
    if k == "nt":
        return ("nt", kids)
    if k == "dict":
        keys = draw(st.permutations(KEYS))[: len(kids)]
        return ("dict", list(zip(keys, kids)))
    if k == "custom":
        return ("custom", draw(st.sampled_from(["x", "y"])), kids)
    raise AssertionError(k)


def relabel(d, payloads):
    """Replace leaf payloads left-to-right (flatten order) by items of `payloads` (an iterator)."""
    k = d[0]
    if k == "leaf":
        return ("leaf", next(payloads))
    if k == "none":
        return d
    if k in ("tuple", "list", "nt"):
        return (k, [relabel(c, payloads) for c in d[1]])
    if k == "dict":
        # flatten order is sorted-key order, insertion order is kept as generated
        order = sorted(range(len(d[1])), key=lambda i: d[1][i][0])
        new = [None] * len(d[1])
        for i in order:
            new[i] = (d[1][i][0], relabel(d[1][i][1], payloads))
        return ("dict", new)
    if k == "custom":
        return ("custom", d[1], [relabel(c, payloads) for c in d[2]])
    raise AssertionError(d)


def to_json(d):
    k = d[0]
    if k == "leaf":
        return ["leaf", d[1]]
    if k == "none":
        return ["none"]
    if k in ("tuple", "list", "nt"):
        return [k, [to_json(c) for c in d[1]]]
    if k == "dict":
        return ["dict", [[key, to_json(c)] for key, c in d[1]]]
    return ["custom", d[1], [to_json(c) for c in d[2]]]


def from_json(j):
    k = j[0]
    if k == "leaf":
        p = j[1]
        return ("leaf", tuple(p) if isinstance(p, list) else p)
    if k == "none":
        return ("none",)
    if k in ("tuple", "list", "nt"):
        return (k, [from_json(c) for c in j[1]])
    if k == "dict":
        return ("dict", [(key, from_json(c)) for key, c in j[1]])
    return ("custom", j[1], [from_json(c) for c in j[2]])
