"""Hypothesis strategies for dim tokens, specs, shapes and values (DESIGN §3.1/3.2).

Construction over rejection: tokens are built from (modifier permutation, doc position, base);
shapes are derived from the spec and the model context and then mutated with probability ~1/2,
so accept/reject stays balanced without assume()."""
from __future__ import annotations

import itertools

from hypothesis import strategies as st

from vf.models import dimlang as dl
from vf.models.dimlang import Token

NAMES = ["a", "b", "c", "d", "n", "foo", "batch", "größe", "e", "pi"]  # identifiers are not only ASCII; 'e', 'pi' are ordinary names too
VNAMES = ["v", "w", "β", "a"]  # "a" is also a plain axis name: "*a" and "a" are different things
DOCS = ["rows", "cols", "doc", "x1", "a", "n"]  # a documentation name may coincide with an axis name used elsewhere: it is still ignored
SIZES = [0, 1, 2, 3, 4, 5, 7]
# values of the int arguments usable in {..} holes.  'n' and 'a' are ALSO axis names of the pool on purpose: an axis
# name in a symbolic expression refers to the bound axis (never to a same-named argument), a name inside {..} to the
# argument (never to a same-named axis)
HOLE_ARGS = {"hn": 3, "hm": 0, "n": 6, "a": 2}
HOLE_ATTR = ("hobj", "k", 4)


def chance(draw, p: float) -> bool:
    """Bernoulli(p) drawn through Hypothesis (integers, not floats: float draws are biased to 0/1)."""
    return draw(st.integers(0, 999)) >= 1000 - int(p * 1000)


def perms(s):
    return ["".join(p) for p in itertools.permutations(s)]


@st.composite
def sym_expr(draw, names, holes=False, depth=0):
    """A symbolic expression AST over the given axis names; top level is never a bare name/int."""
    names = list(names) or ["a"]
    leaf = st.one_of(
        st.sampled_from(names).map(lambda n: ("name", n)),
        st.sampled_from([0, 1, 2, 3]).map(lambda k: ("int", k)),
    )
    if holes:
        leaf = st.one_of(
            leaf,
            st.sampled_from(sorted(HOLE_ARGS)).map(lambda a: ("hole", a)),
            st.just(("holeattr", HOLE_ATTR[0], HOLE_ATTR[1])),
        )
    kind = draw(st.sampled_from(["bin", "bin", "bin", "call", "floordiv", "truediv"] + (["hole"] if holes else [])))
    sub = leaf if depth >= 1 else st.one_of(leaf, leaf, sym_expr(names, holes, depth + 1))
    if kind == "hole":
        return draw(
            st.sampled_from([("hole", a) for a in sorted(HOLE_ARGS)] + [("holeattr", HOLE_ATTR[0], HOLE_ATTR[1])])
        )
    if kind == "floordiv":
        return ("bin", "//", draw(sub), ("int", draw(st.sampled_from([1, 2, 3]))))
    if kind == "truediv":
        # true division: the value may be non-integral (then no axis size equals it) or a float equal to a size (4/2 == 2)
        return ("bin", "/", draw(sub), ("int", draw(st.sampled_from([2, 3, 2]))))
    if kind == "call":
        return ("call", draw(st.sampled_from(["min", "max"])), draw(sub), draw(sub))
    return ("bin", draw(st.sampled_from(["+", "-", "*"])), draw(sub), draw(sub))


def _weighted(pool):
    """Names are drawn with weight on the first few of the pool, so that re-use of a name (what most branches of the
    matcher need) stays frequent however many exotic names the pool has."""
    pool = list(pool)
    return pool[:1] * 4 + pool[1:2] * 3 + pool[2:3] * 2 + pool[3:]


@st.composite
def legal_token(draw, *, allow_multi=True, allow_q=False, sym_names=(), holes=False, names=NAMES, vnames=VNAMES, only_multi=False):
    if only_multi:
        kinds = ["ellipsis", "namedvar", "namedvar", "namedvar", "namedvar", "namedvar", "anonvar"]
    else:
        kinds = (
            ["name"] * 5 + ["int"] * 3 + ["anon"] * 2 + ["sym"] * (2 if sym_names or holes else 0)
            + (["ellipsis", "namedvar", "namedvar", "anonvar"] if allow_multi else [])
        )
    kind = draw(st.sampled_from(kinds))
    doc = draw(st.one_of(st.none(), st.none(), st.none(), st.sampled_from(DOCS)))
    names, vnames = _weighted(names), _weighted(vnames)
    if kind == "ellipsis":
        return Token("", "ellipsis", None)
    if kind == "name":
        mods = draw(st.sampled_from(["", "", "", "#"] + (["?", "#?", "?#"] if allow_q else [])))
        base_kind, base = "name", draw(st.sampled_from(names))
    elif kind == "int":
        mods = draw(st.sampled_from(["", "", "#"]))
        base_kind, base = "int", draw(st.sampled_from(SIZES + [1, 10]))
    elif kind == "sym":
        mods = draw(st.sampled_from(["", "", "#"]))
        base_kind, base = "sym", draw(sym_expr(sym_names, holes))
    elif kind == "anon":
        mods = draw(st.sampled_from(["_", "_"] + (["_?", "?_"] if allow_q else [])))
        if draw(st.booleans()):
            base_kind, base = "empty", None
        else:
            base_kind, base = "name", draw(st.sampled_from(names))
    elif kind == "anonvar":
        mods = draw(st.sampled_from(["*_", "_*"]))
        if draw(st.booleans()):
            base_kind, base = "empty", None
        else:
            base_kind, base = "name", draw(st.sampled_from(vnames))
    else:  # namedvar
        opts = ["*", "*", "*#", "#*"]
        if allow_q:
            opts += ["*?", "?*", "#*?", "?#*", "*#?"]
        mods = draw(st.sampled_from(opts))
        base_kind, base = "name", draw(st.sampled_from(vnames))
    docpos = draw(st.integers(0, len(mods))) if doc is not None else 0
    t = Token(mods, base_kind, base, doc, docpos)
    assert t.legal() is True, t
    return t


@st.composite
def legal_spec(draw, *, max_axes=6, allow_q=False, bound=(), holes=False, multi_prob=0.7, names=NAMES, vnames=VNAMES):
    """A legal spec (list of tokens), at most one multi-axis token, symbolic axes mentioning
    names bound before (prior context or an earlier axis) most of the time."""
    n = draw(st.integers(0, max_axes))
    want_multi = n > 0 and chance(draw, multi_prob)
    multi_at = draw(st.integers(0, n - 1)) if want_multi else -1
    toks = []
    known = set(bound)
    for i in range(n):
        if i == multi_at:
            t = draw(legal_token(only_multi=True, allow_q=allow_q, names=names, vnames=vnames))
        else:
            # 1 time in 8 allow a symbolic axis over a possibly-unbound name
            loose = draw(st.integers(0, 7)) == 0
            sn = sorted(known) if (known and not loose) else (list(names) if loose else ())
            t = draw(legal_token(allow_multi=False, allow_q=allow_q, sym_names=sn, holes=holes, names=names, vnames=vnames))
        toks.append(t)
        if t.base_kind == "name" and not t.is_multi() and "_" not in t.mods and "?" not in t.mods:
            known.add(t.base)
    # the prefix/suffix order of evaluation: names bound in the suffix are not available to the prefix;
    # that is how they were generated (left to right) except across the variadic, where order is the same.
    return toks


def whitespace_seps(draw, n):
    # (built from lists of sampled characters rather than st.text(alphabet=...): strings over DIFFERENT alphabets at the same position
    # of a choice sequence trip an internal error of Hypothesis 6.168's shrinker -- "ValueError: 42 is not in list")
    def _chars(alphabet, lo, hi):
        return st.lists(st.sampled_from(list(alphabet)), min_size=lo, max_size=hi).map("".join)

    ws = _chars(" \t\n\r\x0b\x0c", 1, 3)
    lead = draw(_chars(" \t\n", 0, 2))
    trail = draw(_chars(" \t\n", 0, 2))
    if n == 0:
        return [lead + trail]
    return [lead] + [draw(ws) for _ in range(n - 1)] + [trail]


@st.composite
def shape_for(draw, meanings, mctx: dl.MCtx, *, mutate_prob=0.6, label=None, max_rank=6):
    """A shape that matches `meanings` under `mctx` (when possible), then mutated w.p. mutate_prob.
    Returns (shape, mutated?)."""
    size = st.sampled_from(SIZES)
    local = dict(mctx.single)
    out = []
    var_at = None
    for i, m in enumerate(meanings):
        k = m[0]
        if k == "anon":
            out.append([draw(size)])
        elif k == "fixed":
            out.append([1 if (m[2] and draw(st.integers(0, 3)) == 0) else m[1]])
        elif k == "named":
            name = (label or "") + m[1] if m[3] else m[1]
            if m[2] and draw(st.integers(0, 3)) == 0:
                out.append([1])
            elif name in local:
                out.append([local[name]])
            else:
                local[name] = draw(size)
                out.append([local[name]])
        elif k == "sym":
            try:
                v = dl.expr_eval(m[1], local, mctx.args)
            except (dl.Unbound, Exception):
                v = None
            if v is not None and -1 < v < 0:
                out.append([0])  # e.g. a/2-1 with a=1: no size equals -0.5, the nearest candidate is 0
            elif v is None or v < 0 or v > 40:
                out.append([draw(size)])
            elif m[2] and draw(st.integers(0, 3)) == 0:
                out.append([1])
            else:
                out.append([int(v)])  # a non-integral value is truncated: the shape then does NOT match
        else:
            var_at = i
            out.append(None)
    if var_at is not None:
        m = meanings[var_at]
        room = max(0, max_rank - (len(meanings) - 1))
        if m[0] == "namedvar":
            name = (label or "") + m[1] if m[3] else m[1]
        else:
            name = None
        if name is not None and name in mctx.variadic:
            bprev, prev = mctx.variadic[name]
            prev = list(prev)
            choice = draw(st.integers(0, 5))
            if choice <= 2:
                vs = prev
            elif choice == 3:  # lower rank / ones: what '#' may accept
                cut = draw(st.integers(0, len(prev)))
                vs = [1 if draw(st.booleans()) else s for s in prev[cut:]]
            elif choice == 4:  # higher rank / expand ones: what a broadcastable previous value admits
                vs = [draw(size) for _ in range(draw(st.integers(0, 1)))] + [
                    (draw(size) if s == 1 and draw(st.booleans()) else s) for s in prev
                ]
            else:
                vs = [draw(size) for _ in range(draw(st.integers(0, min(3, room))))]
        else:
            vs = [draw(size) for _ in range(draw(st.integers(0, min(3, room))))]
        out[var_at] = vs
    shape = [s for part in out for s in part]
    mutated = False
    if chance(draw, mutate_prob):
        mutated = True
        mk = draw(st.sampled_from(["change", "change", "change", "drop", "add", "one", "zero"]))
        if mk in ("change", "one", "zero") and shape:
            pos = draw(st.integers(0, len(shape) - 1))
            if mk == "change":
                shape[pos] = draw(size.filter(lambda s, old=shape[pos]: s != old))
            elif mk == "one":
                shape[pos] = 1
            else:
                shape[pos] = 0
        elif mk == "drop" and shape:
            del shape[draw(st.integers(0, len(shape) - 1))]
        else:
            shape.insert(draw(st.integers(0, len(shape))), draw(size))
    return tuple(shape[:8]), mutated


def meanings_of(tokens):
    return [t.meaning() for t in tokens]
