"""Generated call cases for C02 / C13 / C17: a signature of 1..5 array-annotated parameters plus an
optional return annotation, argument/return shapes, and ways of spelling the same call
(parameter permutation x call style x typechecker x decorator spelling x function/dataclass)."""
from __future__ import annotations

import dataclasses
import warnings

import numpy as np
from hypothesis import strategies as st

import jaxtyping
from jaxtyping import Shaped, jaxtyped
from vf.gen import dims as gd
from vf.models import dimlang as dl

PNAMES = ["x", "y", "z", "u", "w"]
CALL_NAMES = ["a", "b", "c", "n", "e"]
CALL_VNAMES = ["v", "w", "a"]


def tok_json(t):
    return [t.mods, t.base_kind, t.base, t.doc, t.docpos]


def _tup(x):
    return tuple(_tup(y) for y in x) if isinstance(x, (list, tuple)) else x


def tok_from_json(j):
    mods, bk, base, doc, docpos = j
    return dl.Token(mods, bk, _tup(base) if bk == "sym" else base, doc, docpos)


def exec_source(src, filename, ns):
    """exec generated source with or without postponed evaluation of annotations ('from __future__ import annotations'), decided by the
    source text itself (so that a replayed case compiles the same way): the annotations of half of the generated functions are
    strings resolved through their module's globals, those of the other half are evaluated objects."""
    import __future__

    postponed = sum(map(ord, src)) % 2 == 0
    exec(compile(src, filename, "exec", flags=__future__.annotations.compiler_flag if postponed else 0, dont_inherit=True), ns)
    return postponed


def plainly_bound(meanings):
    """Names certainly bound by a *matching* use of this spec: plain (non-'#') named axes."""
    return {m[1] for m in meanings if m[0] == "named" and not m[2] and not m[3]}


def _add_symbolic(draw, case):
    """Append one symbolic axis over a plainly bound name (n+1, 2*n, n-1, n*2/2) to the return annotation -- or, without one, to the
    last parameter -- together with the matching size (or, one time in four, a size that is off by one)."""
    params, ret = case["params"], case["ret"]
    if ret is None and len(params) < 2:
        return
    target = ret if ret is not None else params[-1]
    m = dl.MCtx()
    plain = set()
    for p in (params if ret is not None else params[:-1]):
        o = dl.match(meanings_of(p), p["shape"], m)
        if o.ctx is not None:
            m = o.ctx
        plain |= plainly_bound(meanings_of(p))
    # only names that some parameter binds plainly (not through '#', which may leave the name unbound): quantifier of C02
    names = sorted(n for n in m.single if n.isascii() and n in plain)
    if not names:
        return
    nm = ("name", draw(st.sampled_from(names)))
    expr = draw(st.sampled_from([("bin", "+", nm, ("int", 1)), ("bin", "*", ("int", 2), nm), ("bin", "-", nm, ("int", 1)),
                                 ("bin", "/", ("bin", "*", nm, ("int", 2)), ("int", 2))]))
    v = dl.expr_eval(expr, m.single, {})
    right = draw(st.integers(0, 3)) != 0
    if right and (v < 0 or v != int(v)):
        return
    target["tokens"] = list(target["tokens"]) + [tok_json(dl.Token("", "sym", expr))]
    target["shape"] = list(target["shape"]) + [int(v) if right else max(0, int(v)) + 1]


@st.composite
def call_case(draw, *, max_params=5, want_return=None, mutate=0.08):
    """-> dict(params=[{name, tokens, shape}], ret={tokens, shape}|None).  Symbolic axes only mention
    names plainly bound by an earlier parameter; shapes are drawn against an evolving model context and
    mutated with probability `mutate` each, so roughly half of the cases are satisfiable."""
    k = draw(st.integers(1, max_params))
    m = dl.MCtx()
    bound = set()
    params = []
    mode = draw(st.sampled_from(["var", "mixed", "bcast", "mixed"]))
    if mode != "mixed":
        k = max(k, 2)
    # 'var' sub-mode: every argument is exactly '*v' / '*#v' and the shapes walk through the states of one variadic binding on purpose
    # (bound by a broadcastable use, pinned by a plain use of the same shape, then grown / shrunk / kept by later uses)
    grow = mode == "var" and draw(st.integers(0, 2)) == 0
    running = []
    if grow:
        k = max(k, 3)
        running = draw(st.lists(st.sampled_from([1, 1, 2, 3]), min_size=1, max_size=2))

    def grow_entry():
        nonlocal running
        flag = draw(st.sampled_from(["*#", "*", "*", "#*"]))
        how = draw(st.sampled_from(["same", "grow", "same", "rank", "one"]))
        shape = list(running)
        ones = [j for j, d in enumerate(shape) if d == 1]
        if how == "grow" and ones:
            shape[ones[draw(st.integers(0, len(ones) - 1))]] = draw(st.sampled_from([2, 3]))
        elif how == "rank" and len(shape) < 4:
            shape = [draw(st.sampled_from([2, 1, 3]))] + shape
        elif how == "one" and shape:
            shape[draw(st.integers(0, len(shape) - 1))] = 1
        # the running broadcast of everything seen so far (when compatible)
        a, b = [1] * (len(shape) - len(running)) + running, [1] * (len(running) - len(shape)) + shape
        if all(x == y or x == 1 or y == 1 for x, y in zip(a, b)):
            running = [max(x, y) for x, y in zip(a, b)]
        return [dl.Token(flag, "name", "v")], tuple(shape)

    def focused_spec():
        """'var': [axis] *v|*#v [axis] over one shared variadic name; 'bcast': 1..3 axes over a,b with '#' often."""
        T = dl.Token
        if mode == "var":
            pre = [T(draw(st.sampled_from(["", "#"])), "name", draw(st.sampled_from(["a", "b"])))] if draw(st.integers(0, 2)) == 0 else []
            suf = [T(draw(st.sampled_from(["", "#"])), "name", draw(st.sampled_from(["a", "b"])))] if draw(st.integers(0, 2)) == 0 else []
            var = T(draw(st.sampled_from(["*", "*#", "#*", "*"])), "name", draw(st.sampled_from(["v", "v", "v", "w"])))
            return pre + [var] + suf
        n = draw(st.integers(1, 3))
        return [T(draw(st.sampled_from(["#", "", "#"])), "name", draw(st.sampled_from(["a", "b", "a"]))) for _ in range(n)]

    for i in range(k):
        forced_shape = None
        if grow:
            toks, forced_shape = grow_entry()
        elif mode != "mixed":
            toks = focused_spec()
        else:
            toks = draw(gd.legal_spec(max_axes=4, bound=sorted(bound), names=CALL_NAMES, vnames=CALL_VNAMES, multi_prob=0.55))
        # drop symbolic axes that mention names not plainly bound earlier (quantifier of C02)
        toks = [t for t in toks if not (t.base_kind == "sym" and not dl.expr_names(t.base) <= bound)]
        meanings = [t.meaning() for t in toks]
        if forced_shape is not None:
            shape = forced_shape
        else:
            shape, _ = draw(gd.shape_for(meanings, m, mutate_prob=mutate))
        o = dl.match(meanings, shape, m)
        if o.ctx is not None:
            m = o.ctx
        bound |= plainly_bound(meanings)
        params.append({"name": PNAMES[i], "tokens": [tok_json(t) for t in toks], "shape": list(shape)})
    ret = None
    if want_return is None:
        want_return = draw(st.sampled_from([True, False]))
    if grow and want_return and draw(st.integers(0, 1)) == 0:
        want_return = False  # (a return annotation makes the wrapper re-check the parameters in a second pass)
    if want_return:
        if mode != "mixed":
            toks = focused_spec()
        else:
            toks = draw(gd.legal_spec(max_axes=4, bound=sorted(bound), names=CALL_NAMES, vnames=CALL_VNAMES, multi_prob=0.55))
        toks = [t for t in toks if not (t.base_kind == "sym" and not dl.expr_names(t.base) <= bound)]
        meanings = [t.meaning() for t in toks]
        shape, _ = draw(gd.shape_for(meanings, m, mutate_prob=mutate))
        ret = {"tokens": [tok_json(t) for t in toks], "shape": list(shape)}
    case = {"params": params, "ret": ret}
    if draw(st.integers(0, 2)) == 0:
        _add_symbolic(draw, case)
    # targeted breakage: change one axis of one argument (preferably not the first) after the fact, so that
    # each argument alone still tends to match and the conflict is a cross-argument one
    nmut = draw(st.sampled_from([1, 0, 1, 2, 0, 1]))
    entries = params + ([ret] if ret else [])
    for _ in range(nmut):
        e = entries[draw(st.integers(0, len(entries) - 1))] if len(entries) == 1 else entries[draw(st.integers(1, len(entries) - 1))]
        if e["shape"]:
            pos = draw(st.integers(0, len(e["shape"]) - 1))
            e["shape"][pos] = draw(st.sampled_from([s for s in gd.SIZES if s != e["shape"][pos]]))
    return case


def meanings_of(entry):
    return [tok_from_json(j).meaning() for j in entry["tokens"]]


def spec_of(entry):
    return dl.spec_spelling([tok_from_json(j) for j in entry["tokens"]])


def valid_orders(case):
    """Permutations of the parameters keeping every symbolic axis after a parameter that plainly binds
    the names it uses (the first such binder in the original order must still precede it)."""
    import itertools

    ps = case["params"]
    need = []  # for param i: set of names its symbolic axes use
    binds = []
    for p in ps:
        ms = meanings_of(p)
        need.append(set().union(*[dl.expr_names(m[1]) for m in ms if m[0] == "sym"]) if ms else set())
        binds.append(plainly_bound(ms))
    out = []
    for perm in itertools.permutations(range(len(ps))):
        ok = True
        have = set()
        for i in perm:
            if not need[i] <= have:
                ok = False
                break
            have |= binds[i]
        if ok:
            out.append(list(perm))
    return out


def reference_verdict(case):
    checks = [(meanings_of(p), p["shape"]) for p in case["params"]]
    if case["ret"] is not None:
        checks.append((meanings_of(case["ret"]), case["ret"]["shape"]))
    return dl.satisfiable(checks)


def sequential_verdict(case, order=None):
    """Cross-check of the solver by the sequential matcher (harness self-check)."""
    m = dl.MCtx()
    ps = case["params"] if order is None else [case["params"][i] for i in order]
    seq = [(meanings_of(p), p["shape"]) for p in ps]
    if case["ret"] is not None:
        seq.append((meanings_of(case["ret"]), case["ret"]["shape"]))
    for ms, shp in seq:
        o = dl.match(ms, shp, m)
        if dl.TRUE not in o.allowed:
            return False if o.allowed == {dl.FALSE} else None
        if len(o.allowed) > 1:
            return None
        m = o.ctx
    return True


def checker(name):
    if name == "typeguard":
        import typeguard

        return typeguard.typechecked
    import beartype

    return beartype.beartype


def position_kinds(n, npo, nko):
    """Kinds by *position*: the first npo parameters positional-only, the last nko keyword-only."""
    npo = min(npo, n)
    nko = min(nko, n - npo)
    return ["po"] * npo + ["pk"] * (n - npo - nko) + ["ko"] * nko


def build_function(case, order, checker_name, spelling, category="Shaped", array_type=np.ndarray, fname="fn", kinds=None):
    """Compile and decorate `def fn(<params in order>) -> R: return __ret`.

    case["int_param"] = [name, value]: a leading plain-int parameter named like an axis (it never is the axis);
    case["ko_defaults"] = positions (in the call order) of keyword-only parameters that carry a default -- legal anywhere
    in the keyword-only group, the argument is passed explicitly anyway."""
    cat = getattr(jaxtyping, category)
    ns = {"__ret": None}
    parts = []
    kinds = kinds or ["pk"] * len(order)
    if case.get("int_param"):
        parts.append(f"{case['int_param'][0]}: int")
        if kinds and kinds[0] == "ko" and False:
            pass
    for pos, i in enumerate(order):
        p = case["params"][i]
        ns[f"A_{p['name']}"] = cat[array_type, spec_of(p)]
        if kinds[pos] == "ko" and (pos == 0 or kinds[pos - 1] != "ko"):
            parts.append("*")
        dflt = ""
        if kinds[pos] == "ko" and pos in case.get("ko_defaults", []):
            ns[f"D_{p['name']}"] = np.zeros(tuple(p["shape"]))
            dflt = f" = D_{p['name']}"
        parts.append(f"{p['name']}: A_{p['name']}{dflt}")
        if kinds[pos] == "po" and (pos + 1 == len(order) or kinds[pos + 1] != "po"):
            parts.append("/")
    retstr = ""
    if case["ret"] is not None:
        ns["A_ret"] = cat[array_type, spec_of(case["ret"])]
        retstr = " -> A_ret"
    src = f"def {fname}({', '.join(parts)}){retstr}:\n    __calls.append(1)\n    return __ret[0]\n"
    ns["__calls"] = []
    ns["__ret"] = [None]
    ns["__name__"] = "vf_generated"
    exec_source(src, "<vf-generated>", ns)
    raw = ns[fname]
    tc = checker(checker_name)
    with warnings.catch_warnings():
        warnings.simplefilter("ignore")
        if spelling == "new":
            fn = jaxtyped(typechecker=tc)(raw)
        else:
            fn = jaxtyped(tc(raw))
    return fn, ns, src


def build_plain_subclass_dataclass(case, order, checker_name):
    """An undecorated dataclass and a plain (non-@dataclass) subclass of it that is jaxtyped: it has no __init__ of its
    own, the inherited generated one must be checked all the same."""
    fields = [(case["params"][i]["name"], Shaped[np.ndarray, spec_of(case["params"][i])]) for i in order]
    Base = dataclasses.make_dataclass("DPlainBase", fields)
    Base.__module__ = "vf_generated"
    Sub = type("DPlainSub", (Base,), {"__module__": "vf_generated"})
    return jaxtyped(typechecker=checker(checker_name))(Sub)


def build_init_false_dataclass(case, order, checker_name, options=()):
    """@dataclass(init=False, ...) with a hand-written, annotated __init__ (the usual reason for init=False); options in
    {'frozen', 'slots', 'eq'} are passed on to dataclasses.dataclass."""
    names = [case["params"][i]["name"] for i in order]
    ns = {"__name__": "vf_generated", "dataclasses": dataclasses}
    for i in order:
        ns[f"A_{case['params'][i]['name']}"] = Shaped[np.ndarray, spec_of(case["params"][i])]
    opts = "".join(f", {o}=True" for o in options)
    body = "\n".join(f"    {n}: A_{n}" for n in names)
    sig = ", ".join(f"{n}: A_{n}" for n in names)
    assign = "\n".join(f"        object.__setattr__(self, {n!r}, {n})" for n in names)
    src = f"@dataclasses.dataclass(init=False{opts})\nclass DInitFalse:\n{body}\n    def __init__(self, {sig}):\n{assign}\n"
    exec(compile(src, "<vf-generated-dataclass>", "exec", dont_inherit=True), ns)
    return jaxtyped(typechecker=checker(checker_name))(ns["DInitFalse"])


def build_dataclass(case, order, checker_name, split=None):
    """split=k: a jaxtyped base dataclass with the first k fields and a jaxtyped subclass adding the rest."""
    cat = Shaped
    fields = []
    for i in order:
        p = case["params"][i]
        fields.append((p["name"], cat[np.ndarray, spec_of(p)]))
    tc = checker(checker_name)
    if split is None or split <= 0 or split >= len(fields):
        D = dataclasses.make_dataclass("D", fields)
        D.__module__ = "vf_generated"
        return jaxtyped(typechecker=tc)(D)
    Base = dataclasses.make_dataclass("DBase", fields[:split])
    Base.__module__ = "vf_generated"
    Base = jaxtyped(typechecker=tc)(Base)
    D = dataclasses.make_dataclass("DSub", fields[split:], bases=(Base,))
    D.__module__ = "vf_generated"
    return jaxtyped(typechecker=tc)(D)


class NpIntShaped(np.ndarray):
    """An ndarray whose .shape reports NumPy integer scalars instead of `int` instances (integer-like sizes, as several array libraries and
    symbolic-shape systems report them): sizes are only ever compared and bound, so nothing changes."""

    @property
    def shape(self):
        return tuple(np.int64(s) for s in super().shape)


def make_array(shape, npint=False):
    a = np.zeros(tuple(shape))
    return a.view(NpIntShaped) if npint else a


def call_args(case, order, style, make=None, kinds=None, with_int=True):
    if make is None:
        make = lambda shape: make_array(shape, bool(case.get("npint_shapes")))  # noqa: E731
    ps = [case["params"][i] for i in order]
    vals = [make(tuple(p["shape"])) for p in ps]
    kinds = kinds or ["pk"] * len(ps)
    h = (len(ps) + 1) // 2
    args, kwargs = [], {}
    if case.get("int_param") and with_int:
        args.append(case["int_param"][1])  # the leading int parameter, positionally
    for pos, (p, v) in enumerate(zip(ps, vals)):
        by_kw = {"pos": False, "kw": True}.get(style, pos >= h)
        if kinds[pos] == "po":
            by_kw = False
        elif kinds[pos] == "ko":
            by_kw = True
        if by_kw or kwargs:
            if kinds[pos] == "po":
                raise AssertionError("positional-only after a keyword argument")
            kwargs[p["name"]] = v
        else:
            args.append(v)
    return args, kwargs
