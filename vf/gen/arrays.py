"""Values and annotations for array checks: categories, dtypes, array types, non-arrays."""
from __future__ import annotations

from typing import Any

import numpy as np
from hypothesis import strategies as st

import jaxtyping
from vf.models import dtypes as dt
from vf.gen.dims import chance
from vf.obs import Duck

NP_DTYPES = [
    "bool", "int8", "int16", "int32", "int64", "uint8", "uint16", "uint32", "uint64",
    "float16", "float32", "float64", "complex64", "complex128",
]
COMMON_CATS = ["Shaped", "Float", "Float", "Float32", "Int", "Num", "Real", "Integer", "Inexact", "Bool", "UInt8", "Complex"]


def category(name):
    return getattr(jaxtyping, name)


class OtherArray:
    """A second duck array class (for array-type mismatches)."""

    def __init__(self, shape, dtype):
        self.shape = tuple(shape)
        self.dtype = dtype


class UnprintableArray(np.ndarray):
    """an ndarray whose repr()/str() raise (a deleted / donated device buffer, a handle to something that is gone): still a perfectly
    good array as far as type, dtype and shape go"""

    def __repr__(self):
        raise RuntimeError("vf: this array cannot be printed")

    __str__ = __repr__


def variant_value(value, s):
    """Deterministic (replayable) variants of a NumPy value, chosen from the step itself: an unprintable ndarray subclass, or -- for rank 0
    under the array type Any -- the NumPy scalar of that dtype (it has .shape == () and .dtype)."""
    if s.get("vk") != "np" or not isinstance(value, np.ndarray):
        return value, None
    pick = (sum(s["shape"]) + len(s["tokens"]) + len(s["dtype"])) % 4
    if pick == 0:
        return value.view(UnprintableArray), "unprintable-array"
    if pick == 1 and s["shape"] == [] and s.get("at") == "any" and not s.get("nest"):
        return value.dtype.type(0), "numpy-scalar-under-Any"
    return value, None


NON_ARRAYS = [None, 3, "str", (1, 2), [1.0], object]


def make_value(kind: str, shape, dtype_name: str):
    """kind in np|duck_str|duck_np|other|jax."""
    if kind == "np":
        return np.zeros(shape, dtype=dtype_name)
    if kind == "duck_str":
        return Duck(shape, dtype_name)
    if kind == "duck_np":
        return Duck(shape, np.dtype(dtype_name))
    if kind == "other":
        return OtherArray(shape, dtype_name)
    if kind == "jax":
        import jax.numpy as jnp

        return jnp.zeros(shape, dtype=dtype_name)
    raise AssertionError(kind)


def array_type(kind: str):
    if kind == "np":
        return np.ndarray
    if kind == "any":
        return Any
    if kind == "duck":
        return Duck
    if kind == "jax":
        import jax

        return jax.Array
    raise AssertionError(kind)


def type_accepts(at_kind: str, value_kind: str) -> bool:
    """Array-type clause of C01: isinstance(x, ArrayType), or for Any: has shape and dtype."""
    if at_kind == "any":
        return value_kind in ("np", "duck_str", "duck_np", "other", "jax")
    if at_kind == "np":
        return value_kind == "np"
    if at_kind == "duck":
        return value_kind in ("duck_str", "duck_np")
    if at_kind == "jax":
        return value_kind == "jax"
    raise AssertionError


JAX_OK_DTYPES = {"bool", "int8", "int16", "int32", "uint8", "uint16", "uint32", "float16", "float32", "complex64"}


@st.composite
def typed_value_plan(draw, *, jax_ok=False, mismatch_prob=0.12):
    """Draw (category name, array-type kind, value kind, dtype name, expect_type_ok, expect_dtype_ok)."""
    cat = draw(st.sampled_from(COMMON_CATS))
    at_kinds = ["np", "np", "np", "any", "duck"] + (["jax"] if jax_ok else [])
    at = draw(st.sampled_from(at_kinds))
    # value kind: mostly compatible
    compat = {"np": ["np"], "any": ["np", "duck_str", "duck_np", "other"], "duck": ["duck_str", "duck_np"], "jax": ["jax"]}[at]
    if chance(draw, mismatch_prob / 2):
        vk = draw(st.sampled_from(["np", "duck_str", "other"]))
    else:
        vk = draw(st.sampled_from(compat))
    # dtype: mostly in the category
    tbl = dt.TABLE[cat]
    pool = NP_DTYPES if vk != "jax" else sorted(JAX_OK_DTYPES)
    good = [d for d in pool if tbl is None or d in tbl]
    if good and not chance(draw, mismatch_prob):
        dn = draw(st.sampled_from(good))
    else:
        dn = draw(st.sampled_from(pool))
    return cat, at, vk, dn, type_accepts(at, vk), dt.accepts(cat, dn)
