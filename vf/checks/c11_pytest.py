"""Real-pytest engine of C11: `pytest --jaxtyping-packages=<names>,<checker>` instruments exactly the named packages for the
whole session -- modules first imported while collecting, inside a fixture, inside a test function or in a later test.
Each scenario is a fresh pytest subprocess over the module forest of c11.py."""
import json
import os
import shutil
import subprocess
import sys
import tempfile

from hypothesis import strategies as st

from vf.core import HarnessError, Violation

SPY = "import typeguard\n\ndef a(fn, *args, **kw):\n    return typeguard.typechecked(fn)\n\ndef b(fn, *args, **kw):\n    return typeguard.typechecked(fn)\n"

TEST_TEMPLATE = '''
import importlib, json
import pytest
RESULTS = {{}}

def probe(name, when):
    mod = importlib.import_module(name)
    try:
        mod.f("not-an-int")
        r = "accepted"
    except Exception as e:
        r = type(e).__name__
    RESULTS[name + "@" + when] = r

for _n in {collect!r}:
    probe(_n, "collect")

@pytest.fixture
def fx():
    for n in {fixture!r}:
        probe(n, "fixture")
    return 1

def test_first(fx):
    for n in {test!r}:
        probe(n, "test")
    if {nested!r}:
        # a nested in-process pytest session that does not use the option (pytester-style inline runs, plugin test suites) starts
        # and finishes while this one is running
        import os
        rc = pytest.main(["-q", "-p", "no:cacheprovider", "-p", "jaxtyping._pytest_plugin", os.path.join(os.path.dirname(__file__), "inner", "test_vf_inner.py")])
        RESULTS["nested-session-exit"] = int(rc)

def test_second():
    for n in {later!r}:
        probe(n, "later")
    print("VF11PYTEST" + json.dumps(RESULTS))
'''


@st.composite
def pytest_scenario(draw, modules, hook_names):
    names = draw(st.lists(st.sampled_from(hook_names), min_size=1, max_size=2, unique=True))
    order = draw(st.permutations(modules))
    k = draw(st.integers(3, 6))
    chosen = list(order[:k])
    whens = [draw(st.sampled_from(["test", "collect", "later", "fixture"])) for _ in chosen]
    return {"pytest_real": {"names": names, "checker": draw(st.sampled_from(["a", "b"])), "imports": [[m, w] for m, w in zip(chosen, whens)],
                            "nested": draw(st.sampled_from([True, False]))}}


def matches(mod, name):
    return mod == name or mod.startswith(name + ".")


def check_pytest_real(ctx, case, forest_dir):
    sc = case["pytest_real"]
    d = tempfile.mkdtemp(prefix="vf-c11-pytest-")
    try:
        with open(os.path.join(d, "vf_spy.py"), "w") as f:
            f.write(SPY)
        by = {w: [m for m, ww in sc["imports"] if ww == w] for w in ("collect", "fixture", "test", "later")}
        with open(os.path.join(d, "test_vf_c11.py"), "w") as f:
            f.write(TEST_TEMPLATE.format(nested=bool(sc.get("nested")), **by))
        os.makedirs(os.path.join(d, "inner"))
        with open(os.path.join(d, "inner", "test_vf_inner.py"), "w") as f:
            f.write("def test_inner():\n    assert True\n")
        env = dict(os.environ, PYTEST_DISABLE_PLUGIN_AUTOLOAD="1", PYTHONDONTWRITEBYTECODE="1")
        env["PYTHONPATH"] = os.pathsep.join([d, forest_dir, env.get("PYTHONPATH", "")])
        opt = ",".join(sc["names"] + [f"vf_spy.{sc['checker']}"])
        r = subprocess.run([sys.executable, "-W", "ignore", "-m", "pytest", "-q", "-s", "-p", "no:cacheprovider", "-p", "jaxtyping._pytest_plugin",
                            f"--jaxtyping-packages={opt}", "test_vf_c11.py"], cwd=d, env=env, capture_output=True, text=True, timeout=600)
        line = [l for l in r.stdout.splitlines() if "VF11PYTEST" in l]
        if not line:
            raise Violation("pytest-session", case, f"pytest --jaxtyping-packages={opt} did not complete its two tests: {(r.stdout + r.stderr)[-500:]}")
        got = json.loads(line[0].split("VF11PYTEST", 1)[1])
    finally:
        shutil.rmtree(d, ignore_errors=True)
    if sc.get("nested") and got.get("nested-session-exit") != 0:
        raise HarnessError(f"nested pytest session did not pass: {got}")
    seen = set()
    for m, w in sc["imports"]:
        if m in seen:
            continue
        seen.add(m)
        want = "TypeCheckError" if any(matches(m, n) for n in sc["names"]) else "accepted"
        have = got.get(f"{m}@{w}")
        if have != want:
            raise Violation("pytest-session", case, f"pytest --jaxtyping-packages={opt}: module {m} first imported at stage '{w}': ill-typed call {have}, expected {want}; all: {got}")
    ctx.note(["pytest-real", sc], any(w in ("test", "later", "fixture") and any(matches(m, n) for n in sc["names"]) for m, w in sc["imports"]),
             classes=["pytest-session"] + (["pytest-nested-session-in-between"] if sc.get("nested") else []) + sorted({f"pytest-import-at-{w}" for _, w in sc["imports"]}), sample={"pytest_session": sc})
