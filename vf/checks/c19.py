"""C19 -- disabling checks makes decorated code behave exactly like plain code.

Histories over one decorated callable (signatures/callables of C07, new-style jaxtyped with either
typechecker, plain function or dataclass __init__, optionally typing.no_type_check above or below the
decorator): operations set-switch(value spelling) / call(well- or ill-typed) in random order, the
switch also being set before decoration.  Oracle: differential against the undecorated twin whenever
checking is off (same result object, same exception type and message, body ran once with the very
objects passed -- ill-typed inputs included); when on, ill-typed calls raise TypeCheckError without the
body running and without re-decoration.  Switch values: 0/1/true/false in any case and bools are
accepted, everything else (and unknown keys) raises ValueError and changes nothing.  Environment
variable and hooked modules are exercised in subprocesses."""
from __future__ import annotations

import os
import subprocess
import sys
import tempfile
import textwrap
import typing
import warnings

from hypothesis import given, strategies as st

import jaxtyping
from jaxtyping import TypeCheckError, jaxtyped
from vf import obs
from vf.core import HarnessError, Violation
from vf.gen import calls as gc
from vf.gen import sigs as gs
from vf.checks.c07 import BodyRecorder, drive, same_received

ID = "C19"
LEVEL = "exploration"
SHARDS = {"quick": 4, "thorough": 16}
RULE = (
    "Hypothesis draws a C07 signature + callable kind (def/async/lambda with annotations), checker, no_type_check placement "
    "(none/above/below), an initial switch value set before decoration, and a history of 3..8 operations: set jaxtyping_disable to "
    "a valid spelling (0/1/true/false in random case, True/False), try an invalid value or unknown key (must raise ValueError and "
    "change nothing), call well-typed, call ill-typed (a quarter of the calls from a fresh thread). Subprocess engine: JAXTYPING_DISABLE spellings at import time and a hooked "
    "module under JAXTYPING_DISABLE=1. Non-trivial = history containing an ill-typed call while disabled, or a toggle between two "
    "calls of the same decorated object; distinct by (source, ops)."
)
ASSUMPTIONS = [
    "new-style jaxtyped(typechecker=...) only: with the old double-decorator spelling the user's own typechecker wrapper is outside jaxtyping's control",
    "ill-typed values are placed in named parameters only (see C07)",
]

VALID = [("0", False), ("1", True), ("true", True), ("false", False), ("True", True), ("FALSE", False), ("TRUE", True), ("False", False),
         ("tRuE", True), ("fAlse", False), (True, True), (False, False)]
INVALID = ["yes", "no", "2", "", "on", "off", 0, 1, None, 1.5, "tru", " 1", "1 ", b"1", "01", "-1", [True], "disable",
           # look-alikes that equal an accepted word only under some Unicode normalisation (case folding, NFKC, invisible characters)
           "fal\u017fe", "FAL\u017fE", "\uff54\uff52\uff55\uff45", "\uff11", "true\u200b", "\u0660", "fa\u2113se"]


def set_valid(case, value, key="jaxtyping_disable"):
    try:
        jaxtyping.config.update(key, value)
    except ValueError as e:
        jaxtyping.config.update("jaxtyping_disable", False)
        raise Violation("valid-rejected", case, f"config.update('jaxtyping_disable', {value!r}) raised ValueError: {str(e)[:80]}")
    except Exception as e:  # noqa: BLE001  (a documented spelling of the switch is accepted under every warnings / logging configuration)
        try:
            jaxtyping.config.update("jaxtyping_disable", False)
        except Exception:  # noqa: BLE001
            pass
        raise Violation("valid-rejected", case, f"config.update({key!r}, {value!r}) raised {type(e).__name__}: {str(e)[:120]}")


def check_case(ctx, case):
    obs.reset_state()
    params = case["params"]
    kind = case["callable"]
    fname = case["fname"]
    rec = BodyRecorder()
    ns = {"__body": rec}
    src, ns = gs.render(params, fname, kind=kind, ns=ns)
    raw = gs.compile_fn(src, ns, fname, postponed=bool(case.get("postponed", True)))
    if kind == "lambda":
        raw.__annotations__ = {p["name"]: gs.ann_object_resolved(p["ann"], i) for i, p in enumerate(params) if gs.ann_object(p["ann"], i) is not None}
    # twin for the differential: a second compilation of the same source with its own recorder
    rec0 = BodyRecorder()
    ns0 = dict(ns)
    ns0["__body"] = rec0
    raw0 = gs.compile_fn(src, ns0, fname, postponed=bool(case.get("postponed", True)))
    info = f"source={src!r} checker={case['checker']} no_type_check={case['ntc']}"
    model_disabled = case["initial"][1]
    set_valid(case, case["initial"][0])
    try:
        tc = gc.checker(case["checker"])
        target = raw
        if case["ntc"] == "below":
            target = typing.no_type_check(target)
        with warnings.catch_warnings():
            warnings.simplefilter("ignore")
            dec = jaxtyped(typechecker=tc)(target)
            # the spelling without a typechecker (only a context is opened around the call): used by the toggle-during-call operation
            dec_none = jaxtyped(typechecker=None)(target)
        if case["ntc"] == "above":
            dec = typing.no_type_check(dec)
        if case["ntc"] == "late-below":
            # the function is marked AFTER it was decorated (e.g. by a test suite switching checks off for one helper): the mark is on the
            # wrapped function, the wrapper consults it at call time
            typing.no_type_check(target)
        always_off = case["ntc"] != "none"
        flags = set()
        ncalls = 0
        last_was_call = False
        for op in case["ops"]:
            if op[0] == "set":
                set_valid(case, op[1])
                model_disabled = op[2]
                if ncalls:
                    flags.add("toggle-between-calls")
                continue
            if op[0] == "set-key":
                # the switch name in another letter case: either rejected with ValueError (nothing changes) or it takes effect
                try:
                    jaxtyping.config.update(op[3], op[1])
                    model_disabled = op[2]
                except ValueError:
                    pass
                if bool(jaxtyping.config.jaxtyping_disable) != model_disabled:
                    raise Violation("set-ignored", case, f"config.update({op[3]!r}, {op[1]!r}) was accepted without error but the switch is {jaxtyping.config.jaxtyping_disable}")
                continue
            if op[0] == "invalid":
                key, val = op[1], op[2]
                try:
                    jaxtyping.config.update(key, val)
                    raise Violation("invalid-accepted", case, f"config.update({key!r}, {val!r}) was accepted")
                except ValueError:
                    pass
                except Violation:
                    raise
                except BaseException as e:  # noqa: BLE001
                    raise Violation("invalid-error-class", case, f"config.update({key!r}, {val!r}) raised {type(e).__name__}, not ValueError")
                if bool(jaxtyping.config.jaxtyping_disable) != model_disabled:
                    raise Violation("invalid-changed-state", case, f"rejected update changed the switch to {jaxtyping.config.jaxtyping_disable}")
                continue
            if op[0] == "call-toggle":
                # the body itself flips the switch while the call is in progress: a well-typed call must still return the
                # body's object, and nothing may be left behind
                made = gs.make_args(params, style_seed=op[1])
                if made is None:
                    continue
                args, kwargs, recv = made
                rec.calls.clear()
                rec.exc = None
                newval = not model_disabled
                rec.hook = lambda: jaxtyping.config.update("jaxtyping_disable", newval)
                variant = op[2] if len(op) > 2 else 0  # 0: new style at top level; 1: typechecker=None; 2/3: the same inside a context block
                import numpy as _np
                from jaxtyping import Shaped as _Shaped

                try:
                    if variant >= 2:
                        with jaxtyped("context"):
                            assert isinstance(_np.zeros(3), _Shaped[_np.ndarray, "vf19c"])
                            st_, val = drive(kind, dec_none if variant == 3 else dec, list(args), dict(kwargs))
                            # the enclosing block's binding is still in force after the call
                            if isinstance(_np.zeros(4), _Shaped[_np.ndarray, "vf19c"]):
                                raise Violation("toggle-during-call", case, f"a call whose body flipped the switch to {newval} took the enclosing context block's bindings away (variant {variant}); {info} ops={case['ops']}")
                    else:
                        st_, val = drive(kind, dec_none if variant == 1 else dec, list(args), dict(kwargs))
                except Violation:
                    raise
                except BaseException as e:  # noqa: BLE001
                    raise Violation("toggle-during-call", case, f"well-typed call whose body sets jaxtyping_disable={newval} (variant {variant}): leaving the enclosing context block raised {type(e).__name__}: {e}; {info} ops={case['ops']}")
                finally:
                    rec.hook = None
                ncalls += 1
                if kind == "async":
                    pass
                model_disabled = newval if rec.calls else model_disabled
                if not (st_ == "ok" and val is rec.result and len(rec.calls) == 1):
                    raise Violation("toggle-during-call", case, f"well-typed call whose body sets jaxtyping_disable={newval}: {st_} {val!r}, body ran {len(rec.calls)}x; {info} ops={case['ops']}")
                if not (isinstance(_np.zeros(3), _Shaped[_np.ndarray, "vf19"]) and isinstance(_np.zeros(4), _Shaped[_np.ndarray, "vf19"])):
                    raise Violation("toggle-during-call", case, f"after a call whose body flipped the switch, top-level checks are no longer stateless; {info} ops={case['ops']}")
                flags.add("toggle-during-call")
                flags.add(f"toggle-variant-{variant}")
                continue
            if op[0] == "call-phased":
                # coroutine functions: the call and the await are two moments.  A call made while checking is off IS the plain call: an
                # argument list that does not bind fails at the call (not at the await), and a coroutine obtained while checking was off
                # runs the plain body whatever the switch says when it is awaited
                if kind != "async":
                    continue
                _, typed, style_seed, bad_at, mode = op
                off = model_disabled or always_off
                made = gs.make_args(params, bad_at=bad_at if typed == "ill" else None, style_seed=style_seed)
                if made is None:
                    continue
                args, kwargs, recv = made
                if mode == "nonbinding":
                    if any(p["kind"] == "vk" for p in params):
                        continue
                    kwargs = dict(kwargs, no_such_parameter_zz=1)
                flip_to = not model_disabled

                def phased(f, flip):
                    try:
                        co = f(*args, **kwargs)
                    except BaseException as e:  # noqa: BLE001
                        return "raise-at-call", e
                    if flip:
                        jaxtyping.config.update("jaxtyping_disable", flip_to)
                    try:
                        co.send(None)
                    except StopIteration as s_:
                        return "ok", s_.value
                    except BaseException as e:  # noqa: BLE001
                        return "raise-at-await", e
                    co.close()
                    return "raise-at-await", RuntimeError("coroutine did not finish")

                rec.calls.clear()
                rec0.calls.clear()
                rec.exc = rec0.exc = None
                st0, val0 = phased(raw0, False)
                st_, val = phased(dec, mode == "toggle-before-await")
                ncalls += 1
                where = f"{'disabled' if off else 'enabled'}-at-the-call {typed}-typed {mode} coroutine call args={args!r} kwargs={kwargs!r} {info} ops={case['ops']}"
                if mode == "toggle-before-await" and st_ != "raise-at-call":
                    model_disabled = flip_to
                if off or (typed == "well" and mode != "nonbinding"):
                    same = st_ == st0 and ((st_ == "ok" and val is rec.result and len(rec.calls) == 1) or (st_ != "ok" and type(val) is type(val0) and not rec.calls))
                    if not same:
                        raise Violation("differs-from-plain", case, f"decorated: {st_} {val!r} (body ran {len(rec.calls)}x); plain: {st0} {val0!r}; {where}")
                    flags.add(f"coroutine-{mode}-while-{'disabled' if off else 'enabled'}")
                elif rec.calls:
                    raise Violation("body-ran-ill-typed", case, f"body ran; {where}")
                elif mode == "nonbinding":
                    if not (st_ != "ok" and isinstance(val, TypeError) and not isinstance(val, TypeCheckError)):
                        raise Violation("differs-from-plain", case, f"decorated: {st_} {val!r}; plain: {st0} {val0!r}; {where}")
                elif not (st_ != "ok" and isinstance(val, TypeCheckError)):
                    raise Violation("not-restored", case, f"expected TypeCheckError, got {st_} {val!r}; {where}")
                continue
            # call
            _, typed, style_seed, bad_at, raising = op[:5]
            off = model_disabled or always_off
            # while checking is off the decorated function IS the plain function, also for calls that inspect.Signature.bind
            # cannot represent (a keyword named like a defaulted positional-only parameter, C07's known finding when on)
            shadow = off and typed == "well" and any(p["kind"] == "po" and p["has_default"] for p in params) and any(p["kind"] == "vk" for p in params)
            made = gs.make_args(params, bad_at=bad_at if typed == "ill" else None, style_seed=style_seed, omit_defaults=shadow, force_shadow=shadow)
            if made is None:
                continue
            args, kwargs, recv = made
            if shadow:
                flags.add("unbindable-call-while-disabled")
            # the body does two manual checks that agree only outside a context: plain code called at top level sees
            # (True, True); so must the decorated function while checking is off
            body_checks, body_checks0 = [], []

            def mk(sink):
                import numpy as _np
                from jaxtyping import Shaped as _Shaped

                return lambda: sink.append((isinstance(_np.zeros(3), _Shaped[_np.ndarray, "vf19n"]), isinstance(_np.zeros(4), _Shaped[_np.ndarray, "vf19n"])))

            rec.hook, rec0.hook = mk(body_checks), mk(body_checks0)
            rec.calls.clear()
            rec0.calls.clear()
            exc = ValueError("from body") if raising else None
            rec.exc = rec0.exc = exc
            if len(op) > 5 and op[5]:
                # the switch is process-wide: a call made from another thread sees it too
                import threading

                box = []
                th = threading.Thread(target=lambda: box.append(drive(kind, dec, list(args), dict(kwargs))))
                th.start()
                th.join()
                st_, val = box[0]
                flags.add("call-from-other-thread")
            else:
                st_, val = drive(kind, dec, list(args), dict(kwargs))
            st0, val0 = drive(kind, raw0, list(args), dict(kwargs))
            rec.hook = rec0.hook = None
            ncalls += 1
            if off and body_checks != body_checks0:
                raise Violation("differs-from-plain", case, f"manual isinstance checks in the body gave {body_checks} in the decorated function (checking off) and {body_checks0} in the plain one; "
                                                            f"args={args!r} kwargs={kwargs!r} {info} ops={case['ops']}")
            where = f"{'disabled' if off else 'enabled'} {typed}-typed call args={args!r} kwargs={kwargs!r} {info} ops={case['ops']}"
            if off or typed == "well":
                # exactly like the plain function
                if len(rec.calls) != 1:
                    raise Violation("body-count", case, f"body ran {len(rec.calls)} times; {where}")
                if raising:
                    if not (st_ == "raise" and val is exc):
                        raise Violation("differs-from-plain", case, f"decorated: {st_} {val!r}; plain: raise {exc!r}; {where}")
                elif not (st_ == "ok" and val is rec.result and st0 == "ok"):
                    raise Violation("differs-from-plain", case, f"decorated: {st_} {val!r}; plain: {st0} {val0!r}; {where}")
                err = same_received(rec.calls[0], recv, ns, params)
                if err:
                    raise Violation("argument-identity", case, f"{err}; {where}")
                if off and typed == "ill":
                    flags.add("ill-typed-while-disabled")
            else:
                if rec.calls:
                    raise Violation("body-ran-ill-typed", case, f"body ran; {where}")
                if not (st_ == "raise" and isinstance(val, TypeCheckError)):
                    raise Violation("not-restored", case, f"expected TypeCheckError, got {st_} {val!r}; {where}")
                if "ill-typed-while-disabled" in flags:
                    flags.add("rejected-again-after-reenable")
    finally:
        jaxtyping.config.update("jaxtyping_disable", False)
    nontrivial = bool(flags & {"ill-typed-while-disabled", "toggle-between-calls"})
    ctx.note([src, case["checker"], case["ntc"], case["initial"], case["ops"]], nontrivial,
             classes=sorted(flags) + [f"ntc-{case['ntc']}", f"callable-{kind}", f"initial-{case['initial'][1]}"],
             sample={"source": src, "no_type_check": case["ntc"], "initial": case["initial"], "ops": case["ops"]})


@st.composite
def c19_case(draw):
    kind = draw(st.sampled_from(["def", "def", "async", "lambda"]))
    params = draw(gs.signature())
    annotated = [i for i, p in enumerate(params) if p["ann"] != "none" and p["kind"] in ("po", "pk", "ko")]
    if not annotated:
        params = [{"name": "x", "kind": "pk", "ann": "int", "has_default": False}] + [p for p in params if p["name"] != "x"]
        # keep positional-only parameters first
        params.sort(key=lambda p: {"po": 0, "pk": 1, "va": 2, "ko": 3, "vk": 4}[p["kind"]])
        annotated = [i for i, p in enumerate(params) if p["ann"] != "none" and p["kind"] in ("po", "pk", "ko")]
        # a required parameter must not follow a defaulted positional one
        seen_default = False
        for p in params:
            if p["kind"] in ("po", "pk"):
                if p["has_default"]:
                    seen_default = True
                elif seen_default:
                    p["has_default"] = True
    valid = st.sampled_from(VALID)
    ops = []
    n = draw(st.integers(3, 8))
    for _ in range(n):
        k = draw(st.sampled_from(["call-ill", "set", "call-well", "call-ill", "set", "invalid", "set-key", "call-toggle"] + (["call-phased", "call-phased"] if kind == "async" else [])))
        if k == "set":
            v = draw(valid)
            ops.append(["set", v[0], v[1]])
        elif k == "set-key":
            v = draw(valid)
            ops.append(["set-key", v[0], v[1], draw(st.sampled_from(["JAXTYPING_DISABLE", "Jaxtyping_Disable", "jaxtyping_DISABLE"]))])
        elif k == "call-phased":
            ops.append(["call-phased", draw(st.sampled_from(["ill", "well"])), draw(st.integers(0, 15)), draw(st.sampled_from(annotated)), draw(st.sampled_from(["nonbinding", "toggle-before-await", "plain"]))])
        elif k == "call-toggle":
            ops.append(["call-toggle", draw(st.integers(0, 15)), draw(st.sampled_from([1, 0, 3, 2]))])
        elif k == "invalid":
            if draw(st.integers(0, 3)) == 0:
                ops.append(["invalid", draw(st.sampled_from(["jaxtyping_disabled", "disable", "", "jaxtyping"])), True])
            else:
                ops.append(["invalid", draw(st.sampled_from(["jaxtyping_disable", "jaxtyping_remove_typechecker_stack"])), draw(st.sampled_from(INVALID))])
        else:
            ops.append(["call", k[5:], draw(st.integers(0, 15)), draw(st.sampled_from(annotated)), draw(st.sampled_from([False, False, True])),
                        draw(st.sampled_from([False, False, False, True]))])
    return {
        "params": params, "callable": kind, "fname": draw(st.sampled_from(["f", "g", "T0"])),
        "checker": draw(st.sampled_from(["typeguard", "beartype"])),
        "ntc": draw(st.sampled_from(["none", "none", "none", "above", "below", "late-below"])),
        "postponed": draw(st.sampled_from([False, True])),
        "initial": list(draw(valid)), "ops": ops,
    }


SUB_SCRIPT = textwrap.dedent('''
    import sys
    try:
        import jaxtyping
    except ValueError as e:
        print("IMPORT-ValueError"); sys.exit(0)
    import typeguard
    from jaxtyping import jaxtyped
    calls = []
    @jaxtyped(typechecker=typeguard.typechecked)
    def f(x: int) -> int:
        calls.append(x); return x
    try:
        r = f("not-an-int"); print("RETURNED", repr(r), len(calls))
    except jaxtyping.TypeCheckError:
        print("TypeCheckError", len(calls))
''')

HOOK_SCRIPT = textwrap.dedent('''
    import sys
    sys.path.insert(0, sys.argv[1])
    from jaxtyping import install_import_hook
    with install_import_hook("vfmod19", "typeguard.typechecked"):
        import vfmod19
    try:
        print("RETURNED", repr(vfmod19.f("not-an-int")), vfmod19.calls)
    except Exception as e:
        print(type(e).__name__, vfmod19.calls)
''')


HOOK_REENABLE_SCRIPT = textwrap.dedent('''
    import sys
    sys.path.insert(0, sys.argv[1])
    import jaxtyping
    from jaxtyping import install_import_hook
    with install_import_hook("vfmod19b", "typeguard.typechecked"):
        import vfmod19b                      # imported while JAXTYPING_DISABLE=1
    r1 = vfmod19b.f("not-an-int")
    jaxtyping.config.update("jaxtyping_disable", False)   # switching back on restores checking without re-import
    try:
        vfmod19b.f("not-an-int"); print("NOT-RESTORED")
    except jaxtyping.TypeCheckError:
        print("RESTORED")
''')


PYTEST_FILE = textwrap.dedent('''
    import typeguard
    import jaxtyping
    from jaxtyping import jaxtyped

    @jaxtyped(typechecker=typeguard.typechecked)
    def g(x: int) -> int:
        return x

    def test_switch():
        out = []
        for fn in (g, __import__("vfmod19").f):
            try:
                out.append("RETURNED " + repr(fn("not-an-int")))
            except jaxtyping.TypeCheckError:
                out.append("TypeCheckError")
        print("VF19PYTEST" + "|".join(out))
''')


def run_pytest_sessions(ctx, d, env_base):
    """The switch inside a pytest session with jaxtyping's plugin loaded (it is auto-loaded in every pytest run of an environment that
    has jaxtyping installed), with and without --jaxtyping-packages."""
    with open(os.path.join(d, "test_vf_c19.py"), "w") as f:
        f.write(PYTEST_FILE)
    for val in ("1", None):
        for packages in (False, True):
            env = dict(env_base, PYTEST_DISABLE_PLUGIN_AUTOLOAD="1", PYTHONDONTWRITEBYTECODE="1")
            env["PYTHONPATH"] = os.pathsep.join([d, env.get("PYTHONPATH", "")])
            if val is not None:
                env["JAXTYPING_DISABLE"] = val
            cmd = [sys.executable, "-W", "ignore", "-m", "pytest", "-q", "-s", "-p", "no:cacheprovider", "-p", "jaxtyping._pytest_plugin"]
            if packages:
                cmd.append("--jaxtyping-packages=vfmod19,typeguard.typechecked")
            r = subprocess.run(cmd + ["test_vf_c19.py"], cwd=d, env=env, capture_output=True, text=True, timeout=300)
            line = [l for l in r.stdout.splitlines() if "VF19PYTEST" in l]
            out = line[0].split("VF19PYTEST", 1)[1] if line else f"no result: {(r.stdout + r.stderr)[-300:]}"
            if val == "1":
                exp = "RETURNED 'not-an-int'|RETURNED 'not-an-int'"
            else:
                exp = "TypeCheckError|" + ("TypeCheckError" if packages else "RETURNED 'not-an-int'")
            ctx.note(["pytest-env", val, packages], True, classes=[f"pytest-session-env-{val}"], sample={"pytest session, JAXTYPING_DISABLE": val, "--jaxtyping-packages": packages, "output": out})
            if out != exp:
                raise Violation("env-pytest-session", {"env": val, "pytest": True, "packages": packages},
                                f"pytest session (plugin loaded, --jaxtyping-packages {'given' if packages else 'not given'}) with JAXTYPING_DISABLE={val!r}: decorated function | module vfmod19: {out!r}, expected {exp!r}")


def run_subprocesses(ctx):
    env_base = {k: v for k, v in os.environ.items() if k not in ("JAXTYPING_DISABLE",)}
    cases = [("1", "off"), ("true", "off"), ("TRUE", "off"), ("0", "on"), ("false", "on"), ("False", "on"), (None, "on"),
             ("yes", "err"), ("2", "err"), ("", "err")]
    if ctx.tier == "quick":
        cases = [cases[i] for i in (0, 2, 4, 6, 7)]
    for val, exp in cases:
        env = dict(env_base)
        if val is not None:
            env["JAXTYPING_DISABLE"] = val
        r = subprocess.run([sys.executable, "-W", "ignore", "-c", SUB_SCRIPT], env=env, capture_output=True, text=True, timeout=120)
        out = r.stdout.strip()
        ctx.note(["env", val], True, classes=[f"env-{exp}"], sample={"JAXTYPING_DISABLE": val, "output": out})
        ok = {"off": out == "RETURNED 'not-an-int' 1", "on": out == "TypeCheckError 0", "err": out == "IMPORT-ValueError"}[exp]
        if not ok:
            raise Violation("env-switch", {"env": val}, f"JAXTYPING_DISABLE={val!r}: subprocess printed {out!r} (stderr {r.stderr[-300:]!r}), expected behaviour '{exp}'")
    # hooked module
    d = tempfile.mkdtemp(prefix="vf-c19-")
    try:
        with open(os.path.join(d, "vfmod19.py"), "w") as f:
            f.write("calls = []\ndef f(x: int) -> int:\n    calls.append(x)\n    return x\n")
        for val, exp in (("1", "RETURNED 'not-an-int' ['not-an-int']"), (None, "TypeCheckError []")):
            env = dict(env_base)
            if val is not None:
                env["JAXTYPING_DISABLE"] = val
            r = subprocess.run([sys.executable, "-W", "ignore", "-c", HOOK_SCRIPT, d], env=env, capture_output=True, text=True, timeout=120)
            out = r.stdout.strip()
            ctx.note(["hook-env", val], True, classes=[f"hook-env-{val}"], sample={"hooked module, JAXTYPING_DISABLE": val, "output": out})
            if out != exp:
                raise Violation("env-hooked-module", {"env": val, "hook": True}, f"hooked module with JAXTYPING_DISABLE={val!r}: {out!r} (stderr {r.stderr[-300:]!r}), expected {exp!r}")
        run_pytest_sessions(ctx, d, env_base)
        with open(os.path.join(d, "vfmod19b.py"), "w") as f:
            f.write("def f(x: int) -> int:\n    return x\n")
        env = dict(env_base, JAXTYPING_DISABLE="1")
        r = subprocess.run([sys.executable, "-W", "ignore", "-c", HOOK_REENABLE_SCRIPT, d], env=env, capture_output=True, text=True, timeout=120)
        out = r.stdout.strip()
        ctx.note(["hook-reenable"], True, classes=["hook-reenable"], sample={"hooked module imported while disabled, then re-enabled": out})
        if out != "RESTORED":
            raise Violation("env-hooked-module", {"env": "1", "hook": True, "reenable": True},
                            f"module hooked while JAXTYPING_DISABLE=1, then config.update('jaxtyping_disable', False): ill-typed call gave {out!r} (stderr {r.stderr[-300:]!r})")
    finally:
        import shutil

        shutil.rmtree(d, ignore_errors=True)


def check_dataclass_and_unprintable(ctx):
    """While checking is off a jaxtyped dataclass constructs exactly like the plain one (its __init__ receives a `self` that has no fields
    yet), and a decorated function can be handed values whose repr() raises -- ill-typed values included; switching back on restores checking."""
    import dataclasses

    import numpy as np

    from jaxtyping import Shaped
    from vf.gen import arrays as ga

    for ck in ("typeguard", "beartype"):
        for how in ("config", "no_type_check"):
            obs_reset()

            @dataclasses.dataclass
            class Plain:
                x: int
                y: Shaped[np.ndarray, "n"]

            with warnings.catch_warnings():
                warnings.simplefilter("ignore")
                Checked = jaxtyped(typechecker=gc.checker(ck))(dataclasses.dataclass(type("Checked", (), {"__annotations__": {"x": int, "y": Shaped[np.ndarray, "n"]}, "__module__": __name__})))
                def takes_array(x):
                    return x

                takes_array.__annotations__ = {"x": Shaped[np.ndarray, "n"], "return": Shaped[np.ndarray, "n"]}  # (evaluated annotation objects)
                fn = jaxtyped(typechecker=gc.checker(ck))(takes_array)
            if how == "no_type_check":
                Checked.__init__ = typing.no_type_check(Checked.__init__)
                fn = typing.no_type_check(fn)
            case = {"dataclass_disabled": [ck, how]}
            if how == "config":
                set_valid(case, True)
            try:
                bad = np.zeros((2, 2)).view(ga.UnprintableArray)
                for args in (("not-an-int", bad), (3, np.zeros((4,)).view(ga.UnprintableArray))):
                    try:
                        obj = Checked(*args)
                    except BaseException as e:  # noqa: BLE001
                        raise Violation("differs-from-plain", case, f"[{ck}, switched off by {how}] constructing the jaxtyped dataclass raised {type(e).__name__}: {e}; the plain dataclass constructs")
                    if not (obj.x is args[0] and obj.y is args[1]):
                        raise Violation("argument-identity", case, f"[{ck}, {how}] dataclass fields are not the passed objects")
                    try:
                        r = fn(args[1])
                    except BaseException as e:  # noqa: BLE001
                        raise Violation("differs-from-plain", case, f"[{ck}, switched off by {how}] calling the decorated function with an unprintable array raised {type(e).__name__}: {e}")
                    if r is not args[1]:
                        raise Violation("differs-from-plain", case, f"[{ck}, {how}] result is not the body's object")
            finally:
                jaxtyping.config.update("jaxtyping_disable", False)
            if how == "config":
                for thunk, what in ((lambda: Checked("not-an-int", np.zeros((3,))), "dataclass"), (lambda: fn(np.zeros((2, 2))), "function")):
                    try:
                        thunk()
                        raise Violation("not-restored", case, f"[{ck}] after switching back on, the ill-typed {what} call was accepted")
                    except TypeCheckError:
                        pass
            ctx.note(["dataclass-disabled", ck, how], True, classes=["dataclass-and-unprintable-values-while-disabled"], sample={"dataclass_while_disabled": [ck, how]})


def obs_reset():
    from vf import obs

    obs.reset_state()


def run(ctx):
    try:
        check_dataclass_and_unprintable(ctx)
    except Violation as v:
        ctx.record(v)

    @given(c19_case())
    def cases(case):
        check_case(ctx, case)

    ctx.hyp(cases, max_examples=ctx.n(700, 4000))
    if ctx.shard == 0:
        try:
            run_subprocesses(ctx)
        except Violation as v:
            ctx.record(v)


def replay(case, clause, ctx):
    try:
        if "env" in case:
            run_subprocesses(ctx)
        elif "dataclass_disabled" in case:
            check_dataclass_and_unprintable(ctx)
        else:
            check_case(ctx, case)
    except Violation as v:
        return str(v)
    return None
