"""C04 -- a failed or raising check binds nothing; a passing check is idempotent.

Histories in one context (as C01) with *targeted* failures: values broken at a chosen axis after
earlier axes bound new names, PyTrees broken at the k-th leaf after the structure name and earlier
leaves bound, checks that raise part-way (unbound symbolic name, unbound structure name in a
composite, user function in a symbolic axis raising Exception/BaseException subclasses, a duck
array whose .shape/.dtype raises on the n-th read), repeats of passed checks, and follow-up probes
re-using a name the failed check had tentatively bound.
Oracle: print_bindings() (axes and structure names) before == after every False/raise; after a
pass it equals the reference model; a repeated passed check passes and changes nothing."""
from __future__ import annotations

import jax.tree_util as jtu
import numpy as np
from hypothesis import given, strategies as st

from jaxtyping import PyTree, Shaped, jaxtyped
from vf import obs
from vf.core import Violation
from vf.gen import arrays as ga
from vf.gen import dims as gd
from vf.gen import trees as gt
from vf.models import dimlang as dl
from vf.models import pytree as pt
from vf.checks import c01

ID = "C04"
LEVEL = "exploration"
SHARDS = {"quick": 4, "thorough": 16}
RULE = (
    "Hypothesis histories of 2..12 steps in one context; step kinds: array check (shape derived from spec+context, mutated "
    "w.p. 0.6 at a random axis), PyTree[array, 'T'|'S T'|none] check over trees (<=3 levels, <=6 array leaves, k-th leaf broken), "
    "raising checks (symbolic axis calling a user function that raises RuntimeError/ValueError/KeyboardInterrupt/custom "
    "BaseException at a chosen axis position; duck array whose shape/dtype raises on the n-th read), repeat of the last passed "
    "check, probe re-using a tentatively bound name with another size. Non-trivial = a check that returned False or raised "
    "after the reference model had tentatively bound >=1 new axis/structure name; distinct by (kind, spec, shapes, prior bindings)."
)
ASSUMPTIONS = [
    "reference matcher vf/models/dimlang.py; PyTree leaves here are arrays only (leaf discovery subtleties are C08's subject)",
    "observation is print_bindings() plus follow-up verdicts; the broadcast flag of a '*name' binding is only observable through later verdicts",
]


class Boom(BaseException):
    pass


EXC = {"RuntimeError": RuntimeError, "ValueError": ValueError, "KeyboardInterrupt": KeyboardInterrupt, "Boom": Boom,
       "TypeError": TypeError, "NameError2": ZeroDivisionError}


def hboom(name):
    raise EXC[name]("injected")


class RaisingDuck:
    """Duck array whose .shape (or .dtype) raises on the n-th read."""

    def __init__(self, shape, dtype, attr, n, exc):
        self._shape, self._dtype, self._attr, self._n, self._exc = tuple(shape), dtype, attr, n, exc
        self.reads = 0

    def _tick(self, attr):
        if attr == self._attr:
            self.reads += 1
            if self.reads == self._n:
                raise EXC[self._exc]("injected")

    @property
    def shape(self):
        self._tick("shape")
        return self._shape

    @property
    def dtype(self):
        self._tick("dtype")
        return self._dtype


def verdict_any(value, ann):
    """Like obs.verdict but classifies injected exceptions."""
    try:
        return dl.TRUE if isinstance(value, ann) else dl.FALSE
    except BaseException as e:  # noqa: BLE001
        from jaxtyping import AnnotationError

        if isinstance(e, AnnotationError):
            return dl.ANNERR
        return f"raised {type(e).__name__}"


class History(c01.History):
    def __init__(self, ctx, use_args):
        super().__init__(ctx, use_args)
        if use_args:
            self.m.args["hboom"] = hboom
        self.struct_strs = {}  # structure name -> str(PyTreeDef) expected in print_bindings
        self.last_passed = None

    # -- observation ------------------------------------------------------------------
    def observe(self):
        return obs.bindings()

    def expect(self):
        return self.m.bindings(), dict(self.struct_strs)

    def assert_state(self, where, info):
        got = self.observe()
        exp = self.expect()
        if got[0] != exp[0] or got[1] != exp[1]:
            raise Violation(where, self.case(), f"{info}: print_bindings shows axes={got[0]} structs={got[1]}, expected axes={exp[0]} structs={exp[1]}")

    # -- steps -------------------------------------------------------------------------
    def step(self, s):
        kind = s.get("kind", "array")
        if kind == "array":
            return self.step_array(s)
        if kind == "raise-sym":
            return self.step_raise_sym(s)
        if kind == "raise-attr":
            return self.step_raise_attr(s)
        if kind == "pytree":
            return self.step_pytree(s)
        if kind == "repeat":
            return self.step_repeat(s)
        raise AssertionError(kind)

    def _finish(self, s, got, out, spec_repr, nontrivial_key):
        """Common tail: got is the verdict string; out the model Outcome (or None)."""
        if got == dl.TRUE:
            self.last_passed = s
        tent = out.tentative if out is not None else 0
        failed = got != dl.TRUE
        self.ctx.note(nontrivial_key, failed and tent >= 1,
                      classes=(["inside-copied-contextvars-context"] if s.get("ctxrun") else []) + [f"kind-{s.get('kind', 'array')}", f"got-{got.split()[0]}", f"tentative-{min(tent, 3)}" if failed else "passed"],
                      sample={"kind": s.get("kind", "array"), "spec": spec_repr, "value": s.get("shape", s.get("tree")),
                              "verdict": got, "tentative_bindings_before_failure": tent, "bindings_before": self._before})

    def step_array(self, s):
        self.steps.append(s)
        toks = [c01.tok_from_json(j) for j in s["tokens"]]
        spec = dl.spec_spelling(toks)
        meanings = [t.meaning() for t in toks]
        if s.get("nest"):
            # the same check spelled as a nested annotation: outer spec = first k tokens, inner spec = the rest
            k = s["nest"]
            inner = ga.category(s["cat"])[ga.array_type(s["at"]), dl.spec_spelling(toks[k:])]
            ann = ga.category(s["cat"])[inner, dl.spec_spelling(toks[:k])]
        else:
            ann = ga.category(s["cat"])[ga.array_type(s["at"]), spec]
        value, variant = ga.variant_value(ga.make_value(s["vk"], s["shape"], s["dtype"]), s)
        if variant:
            self.ctx.classes[variant] += 1
        from vf.models import dtypes as dt

        ok_td = ga.type_accepts(s["at"], s["vk"]) and dt.accepts(s["cat"], s["dtype"])
        self.assert_state("bindings-before", f"before {spec!r}")
        self._before = self.observe()[0]
        if s.get("ctxrun"):
            # the check runs inside a copy of the current contextvars.Context on the same thread (what an asyncio task created here
            # would do): same thread, same jaxtyping context -- it binds, fails and rolls back exactly like a direct check
            import contextvars

            got = contextvars.copy_context().run(verdict_any, value, ann)
        else:
            got = verdict_any(value, ann)
        out = dl.match(meanings, s["shape"], self.m) if ok_td else None
        allowed = set(out.allowed) if out is not None else {dl.FALSE}
        if got not in allowed:
            raise Violation("verdict", self.case(), f"{s['cat']}[{s['at']},{spec!r}] on {s['shape']} {s['dtype']}: {got}, reference allows {sorted(allowed)}")
        if got == dl.TRUE:
            self.m = out.ctx
        self.assert_state("rollback" if got != dl.TRUE else "bindings-after", f"after {got} for {spec!r} on {s['shape']}")
        if got == dl.FALSE and s.get("explain", True):
            # what beartype does after isinstance() returned False: ask the annotation's message hook why.  That second
            # evaluation is a failed check like any other: it returns a non-empty explanation and binds nothing.
            try:
                why = ann.__instancecheck_str__(value)
            except BaseException as e:  # noqa: BLE001
                raise Violation("explain-raised", self.case(), f"__instancecheck_str__ of {s['cat']}[{s['at']},{spec!r}] on {s['shape']} raised {type(e).__name__}: {e}")
            if not (isinstance(why, str) and why):
                raise Violation("explain-empty", self.case(), f"isinstance gave False but __instancecheck_str__ returned {why!r} for {s['cat']}[{s['at']},{spec!r}] on {s['shape']}")
            self.assert_state("rollback", f"after asking __instancecheck_str__ why {spec!r} rejected {s['shape']}")
        self._finish(s, got, out, spec, ["array", spec, s["shape"], sorted(self._before.items())])

    def step_raise_sym(self, s):
        """A symbolic axis '{hboom("X")}' at position `at` among otherwise normal tokens."""
        self.steps.append(s)
        toks = [c01.tok_from_json(j) for j in s["tokens"]]
        pieces = [t.spelling() for t in toks]
        raw = "{hboom('" + s["exc"] + "')}"
        pieces.insert(s["at_pos"], raw)
        spec = " ".join(pieces)
        meanings = [t.meaning() for t in toks]
        meanings.insert(s["at_pos"], ("anon",))  # for rank/other-axis purposes the raising axis matches anything
        ann = Shaped[np.ndarray, spec]
        value = np.zeros(s["shape"])
        self.assert_state("bindings-before", f"before {spec!r}")
        self._before = self.observe()[0]
        got = verdict_any(value, ann)
        out = dl.match(meanings, s["shape"], self.m)
        allowed = set()
        if dl.TRUE in out.allowed:
            allowed.add(f"raised {EXC[s['exc']].__name__}")
        else:
            allowed |= set(out.allowed) | {f"raised {EXC[s['exc']].__name__}"}
            if "rank-mismatch" in out.classes:
                allowed = {dl.FALSE}
        if got not in allowed:
            raise Violation("verdict", self.case(), f"{spec!r} on {s['shape']}: {got}, expected one of {sorted(allowed)}")
        self.assert_state("rollback", f"after {got} for {spec!r} on {s['shape']}")
        # tentative bindings before the raising axis: new plain names written left of it (conservative count)
        class O:
            tentative = len({mm[1] for mm in meanings[: s["at_pos"]] if mm[0] == "named" and not mm[3] and mm[1] not in self.m.single})

        out = O
        self._finish(s, got, out, spec, ["raise-sym", spec, s["shape"], sorted(self._before.items())])

    def step_raise_attr(self, s):
        self.steps.append(s)
        toks = [c01.tok_from_json(j) for j in s["tokens"]]
        spec = dl.spec_spelling(toks)
        meanings = [t.meaning() for t in toks]
        from typing import Any

        ann = Shaped[Any, spec]
        value = RaisingDuck(s["shape"], "float32", s["attr"], s["n"], s["exc"])
        self.assert_state("bindings-before", f"before {spec!r}")
        self._before = self.observe()[0]
        got = verdict_any(value, ann)
        out = dl.match(meanings, s["shape"], self.m)
        raised = got.startswith("raised")
        if raised:
            if got != f"raised {EXC[s['exc']].__name__}" or value.reads < s["n"]:
                raise Violation("verdict", self.case(), f"{spec!r}: unexpected {got} (reads={value.reads})")
        elif got not in out.allowed:
            raise Violation("verdict", self.case(), f"{spec!r} on {s['shape']}: {got}, reference allows {sorted(out.allowed)}")
        if got == dl.TRUE:
            self.m = out.ctx
        self.assert_state("rollback" if got != dl.TRUE else "bindings-after", f"after {got} for {spec!r} on raising duck {s['shape']} ({s['attr']} read #{s['n']})")
        self._finish(s, got, out, spec, ["raise-attr", spec, s["shape"], s["attr"], s["n"], sorted(self._before.items())])

    def step_pytree(self, s):
        """PyTree[Shaped[np.ndarray, spec], structure?] on a tree whose leaves are arrays (payload = shape)
        or a non-array object (payload = 'x')."""
        self.steps.append(s)
        toks = [c01.tok_from_json(j) for j in s["tokens"]]
        spec = dl.spec_spelling(toks)
        meanings = [t.meaning() for t in toks]
        leaf_ann = Shaped[np.ndarray, spec]
        if s.get("alt1"):
            # leaf type Union[<binds fresh axes, then fails on size 99>, <the real annotation>]: whatever the first
            # alternative bound tentatively must be gone, also when the PyTree check as a whole PASSES
            from typing import Union

            alt1 = dl.spec_spelling([c01.tok_from_json(j) for j in s["alt1"]])
            leaf_ann = Union[Shaped[np.ndarray, alt1], leaf_ann]
        sname = s.get("structure")
        inner = s.get("inner")  # a structured PyTree as leaf type: PyTree[PyTree[<leaf>, inner], sname]; the whole tree is ONE leaf of the outer
        if inner:
            leaf_ann = PyTree[leaf_ann, inner]
        ann = PyTree[leaf_ann, sname] if sname else PyTree[leaf_ann]
        desc = gt.from_json(s["tree"])
        real = pt.build(desc, lambda p: np.zeros(p) if not isinstance(p, str) else p)
        self.assert_state("bindings-before", f"before PyTree[{spec!r},{sname!r}]")
        self._before = self.observe()[0]
        if s.get("ctxrun"):
            import contextvars

            got = contextvars.copy_context().run(verdict_any, real, ann)
        else:
            got = verdict_any(real, ann)
        # ---- model
        from vf.models.ptcheck import model_pytree_check

        structs2 = dict(self.struct_strs)
        if inner and desc[0] != "none":
            # the inner check decides about the whole tree (binding `inner` to its structure); for the outer one the tree is a single leaf
            allowed, newm, tent, new_inner = model_pytree_check(self.m, meanings, inner, desc)
            new_struct = None
            if sname and pt.leaves(desc):
                # a structured PyTree inside a structured PyTree is documented as ambiguous for '?' axes and raises AnnotationError as
                # soon as the (single) leaf is checked -- unless the outer structure name already rules the tree out.  Either way
                # nothing stays bound, in particular not the inner name that was bound while looking for leaves.
                allowed = {dl.FALSE} if (" " not in sname and sname in self.m.structs and self.m.structs[sname] != ("leaf",)) else {dl.ANNERR}
                if " " in sname:
                    allowed = {dl.FALSE, dl.ANNERR}
                newm, tent = self.m, 1
            elif dl.TRUE in allowed:
                # (also when the reference leaves True-or-AnnotationError open -- an unbound symbolic axis on a '#' axis of size 1 --: IF the
                # check answers True, the inner name is bound like after any accepted check)
                could_annerr = {dl.ANNERR} & set(allowed)
                if new_inner:
                    structs2[new_inner] = str(jtu.tree_structure(real))
                if sname and " " not in sname:  # (a tree without any leaf: the inner check never reaches a leaf, no ambiguity arises)
                    if sname in newm.structs:
                        if newm.structs[sname] != ("leaf",):
                            allowed, newm = {dl.FALSE} | could_annerr, self.m
                    else:
                        newm = newm.copy()
                        newm.structs[sname] = ("leaf",)
                        structs2[sname] = str(jtu.tree_structure(0))
                elif sname:
                    allowed, newm = {dl.TRUE, dl.FALSE, dl.ANNERR}, newm  # composite outer name over an empty tree: not modelled
        else:
            allowed, newm, tent, new_struct = model_pytree_check(self.m, meanings, sname, desc)
        if new_struct:
            structs2[new_struct] = str(jtu.tree_structure(real))
        if got not in allowed:
            raise Violation("verdict", self.case(), f"PyTree[Shaped[ndarray,{spec!r}],{sname!r}] on {s['tree']}: {got}, reference allows {sorted(allowed)}")
        if got == dl.TRUE:
            self.m = newm
            if desc[0] != "none":
                self.struct_strs = structs2
        self.assert_state("rollback" if got != dl.TRUE else "bindings-after", f"after {got} for PyTree[{spec!r},{sname!r}] on {s['tree']}")

        class O:
            tentative = tent

        self._finish(s, got, O, f"PyTree[{'PyTree[' + repr(spec) + ',' + repr(inner) + ']' if inner else repr(spec)},{sname!r}]", ["pytree", spec, sname, inner, s["tree"], sorted(self._before.items())])

    def step_repeat(self, s):
        if self.last_passed is None:
            return
        self.steps.append(s)
        before = self.observe()
        lp = dict(self.last_passed)
        n = len(self.steps)
        self.step(lp)  # runs through the model again: must be TRUE again with identical bindings
        del self.steps[n:]
        after = self.observe()
        if self.last_passed is not lp and False:
            pass
        if before != after:
            raise Violation("idempotence", self.case(), f"repeating the passed check {lp} changed bindings {before} -> {after}")
        self.ctx.classes["repeat"] += 1


# ------------------------------------------------------------------------------------------------
def draw_tree(data, meanings, m):
    """Tree of <=6 array leaves whose shapes are drawn one after the other against an evolving
    model context (so that later leaves are compared with bindings made by earlier ones)."""
    shape_desc = data.draw(gt.tree_desc(st.just(0), max_depth=3, max_leaves=6, allow=("tuple", "list", "dict", "none")), label="tree")
    nl = len(pt.leaves(shape_desc))
    mm = m.copy()
    shapes = []
    for i in range(nl):
        # low per-leaf mutation probability: the first broken leaf should often be a late one
        shp, _ = data.draw(gd.shape_for(meanings, mm, mutate_prob=0.18 if nl > 1 else 0.4))
        o = dl.match(meanings, shp, mm)
        if o.ctx is not None:
            mm = o.ctx
        shapes.append(list(shp))
    if nl and gd.chance(data.draw, 0.06):
        shapes[data.draw(st.integers(0, nl - 1))] = "x"
    return gt.to_json(gt.relabel(shape_desc, iter(shapes)))


def draw_step(data, hist: History):
    m = hist.m
    kind = data.draw(st.sampled_from(["array"] * 4 + ["pytree"] * 3 + ["raise-attr"] + (["raise-sym"] * 2 if hist.use_args else []) + ["repeat"]), label="kind")
    if kind == "repeat":
        return {"kind": "repeat"}
    toks = data.draw(gd.legal_spec(bound=sorted(m.single), holes=hist.use_args, max_axes=5), label="spec")
    meanings = gd.meanings_of(toks)
    s = {"kind": kind, "tokens": [c01.tok_json(t) for t in toks]}
    if kind in ("array", "pytree") and data.draw(st.integers(0, 4)) == 0:
        s["ctxrun"] = True
    if kind == "array":
        cat, at, vk, dn, _, _ = data.draw(ga.typed_value_plan(mismatch_prob=0.05))
        shape, _ = data.draw(gd.shape_for(meanings, m, mutate_prob=0.6))
        s.update(cat=cat, at=at, vk=vk, dtype=dn, shape=list(shape))
        if len(toks) >= 2 and at != "any" and data.draw(st.integers(0, 3)) == 0:
            s["nest"] = data.draw(st.integers(1, len(toks) - 1))
    elif kind == "raise-sym":
        pos = data.draw(st.integers(0, len(toks)))
        full = list(meanings)
        full.insert(pos, ("anon",))
        shape, _ = data.draw(gd.shape_for(full, m, mutate_prob=0.15))
        s.update(at_pos=pos, exc=data.draw(st.sampled_from(["RuntimeError", "ValueError", "KeyboardInterrupt", "Boom", "TypeError", "NameError2"])), shape=list(shape))
    elif kind == "raise-attr":
        shape, _ = data.draw(gd.shape_for(meanings, m, mutate_prob=0.15))
        s.update(attr=data.draw(st.sampled_from(["shape", "shape", "dtype"])), n=data.draw(st.integers(1, 7)),
                 exc=data.draw(st.sampled_from(["RuntimeError", "KeyboardInterrupt", "Boom", "TypeError"])), shape=list(shape))
    else:  # pytree
        bound_structs = sorted(m.structs)
        sk = data.draw(st.sampled_from(["none", "name", "name", "name", "composite"]))
        if sk == "name":
            s["structure"] = data.draw(st.sampled_from(["T", "S", "U"]))
        elif sk == "composite":
            a = data.draw(st.sampled_from(bound_structs + ["T", "S", "U"]))
            b = data.draw(st.sampled_from(bound_structs + ["T", "S", "U"]))
            s["structure"] = f"{a} {b}"
        # '?' axes are only meaningful under a structure name: C16's subject; keep them out here
        s["tree"] = draw_tree(data, meanings, m)
        if data.draw(st.integers(0, 5)) == 0:
            # template: a broadcastable variadic that an early leaf *widens* (overwrites an existing binding) before a
            # later leaf fails -- the only way a passing sub-check changes the value of an existing binding
            vn = data.draw(st.sampled_from(gd.VNAMES))
            wt = [dl.Token(data.draw(st.sampled_from(["*#", "#*"])), "name", vn)]
            s["tokens"] = [c01.tok_json(t) for t in wt]
            prev = m.variadic.get(vn)
            base = list(prev[1]) if prev is not None and prev[0] else [1, 3]
            wide = [data.draw(st.sampled_from([2, 4, 5])) if x == 1 else x for x in base] if 1 in base else [2] + base
            bad = base[:-1] + [base[-1] + 1] if base and base[-1] not in (1,) else base + [7, 7, 7]
            leaves = ([base] if prev is None else []) + [wide, bad if data.draw(st.integers(0, 3)) else wide]
            s["tree"] = gt.to_json(("tuple", [("leaf", l) for l in leaves]))
        if sk in ("none", "name") and all(not isinstance(lf[1], str) for lf in pt.leaves(gt.from_json(s["tree"]))) and data.draw(st.integers(0, 4)) == 0:
            # the leaf type is itself a structured PyTree (name used by this step only): it binds its name while the OUTER check is
            # still looking for leaves; if the outer check then fails (its own structure name, a late leaf) that binding goes too
            s["inner"] = f"Vi{len(hist.steps)}"
        first = next((lf[1] for lf in pt.leaves(gt.from_json(s["tree"])) if not isinstance(lf[1], str)), None)
        if first and not s.get("inner") and data.draw(st.integers(0, 3)) == 0:
            s["alt1"] = [c01.tok_json(t) for t in [dl.Token("", "name", f"q{i}") for i in range(len(first) - 1)] + [dl.Token("", "int", 99)]]
            lvs_ = [lf[1] for lf in pt.leaves(gt.from_json(s["tree"]))]
            if len(lvs_) >= 2 and not isinstance(lvs_[-1], str) and lvs_[-1] and data.draw(st.integers(0, 1)) == 0:
                # ... and a LATER leaf that fails: the first alternative's roll-back happened on an early leaf, names were bound by the
                # real alternative in between, the PyTree check as a whole fails
                lvs_[-1] = list(lvs_[-1])
                lvs_[-1][-1] = lvs_[-1][-1] + 1 if lvs_[-1][-1] != 1 else 5
                s["tree"] = gt.to_json(gt.relabel(gt.from_json(s["tree"]), iter(lvs_)))
        # a composite over bound names: half of the time build the matching composed tree instead
        if sk == "composite":
            ps = s["structure"].split()
            if all(p in m.structs for p in ps) and gd.chance(data.draw, 0.6):
                target = pt.compose_all([m.structs[p] for p in ps])
                d0 = struct_to_desc(target)
                nl = len(pt.leaves(d0))
                mm = m.copy()
                shapes = []
                for _ in range(nl):
                    shp, _ = data.draw(gd.shape_for(meanings, mm, mutate_prob=0.15))
                    o = dl.match(meanings, shp, mm)
                    if o.ctx is not None:
                        mm = o.ctx
                    shapes.append(list(shp))
                s["tree"] = gt.to_json(gt.relabel(d0, iter(shapes)))
    return s


def struct_to_desc(s):
    k = s[0]
    if k == "leaf":
        return ("leaf", 0)
    if k == "none":
        return ("none",)
    if k in ("tuple", "list", "nt"):
        return (k, [struct_to_desc(c) for c in s[1]])
    if k == "dict":
        return ("dict", [(key, struct_to_desc(c)) for key, c in s[1]])
    return ("custom", s[1], [struct_to_desc(c) for c in s[2]])


def in_context(use_args, body):
    obs.reset_state()
    if use_args:

        @jaxtyped(typechecker=None)
        def f(hn, hm, hobj, hboom, n, a):
            return body()

        return f(gd.HOLE_ARGS["hn"], gd.HOLE_ARGS["hm"], c01.HObj, hboom, gd.HOLE_ARGS["n"], gd.HOLE_ARGS["a"])
    with jaxtyped("context"):
        return body()


def run(ctx):
    @given(st.data())
    def histories(data):
        use_args = data.draw(st.booleans())
        hist = History(ctx, use_args)

        def body():
            n = data.draw(st.integers(2, 12), label="steps")
            for _ in range(n):
                hist.step(draw_step(data, hist))

        in_context(use_args, body)
        if obs.stack_depth() != 0:
            raise Violation("stack", hist.case(), "context stack not empty after the history")

    ctx.hyp(histories, max_examples=ctx.n(350, 2000))


def replay(case, clause, ctx):
    hist = History(ctx, case["use_args"])

    def body():
        for s in case["steps"]:
            hist.step(dict(s))

    try:
        in_context(case["use_args"], body)
    except Violation as v:
        return str(v)
    return None
