"""IPython-magic engine of C11: cells run after '%jaxtyping.typechecker X' are instrumented with X (the most
recent one), cells run before any magic are plain.  Each history runs in a fresh IPython process."""
import json
import subprocess
import sys

from hypothesis import strategies as st

from vf.core import HarnessError, Violation

IPY_SCRIPT = r'''
import json, sys, types
spy = types.ModuleType("vf_spy")
spy.log = []
def _mk(tag):
    def checker(fn, *a, **k):
        import typeguard
        spy.log.append((tag, fn.__qualname__))
        return typeguard.typechecked(fn)
    return checker
spy.a, spy.b = _mk("a"), _mk("b")
sys.modules["vf_spy"] = spy
from IPython.testing.globalipapp import start_ipython
import jaxtyping
ip = start_ipython()
ops = json.loads(sys.argv[1])
out = []
n = 0
for op in ops:
    if op[0] == "load":
        ip.run_line_magic(magic_name="load_ext", line="jaxtyping")
    elif op[0] == "reload":
        ip.run_line_magic(magic_name="reload_ext", line="jaxtyping")
    elif op[0] == "magic":
        ip.run_line_magic(magic_name="jaxtyping.typechecker", line="vf_spy." + op[1])
    elif op[0] == "cell":
        n += 1
        name = "g%d" % n
        r = ip.run_cell(raw_cell=op[1].replace("NAME", name))
        if r.error_in_exec is not None or r.error_before_exec is not None:
            out.append({"cell": n, "error": repr(r.error_in_exec or r.error_before_exec)})
            continue
        obj = ip.user_global_ns[name]
        is_cls = isinstance(obj, type)
        try:
            (obj().meth if is_cls else obj)("not-an-int")
            raises = False
        except jaxtyping.TypeCheckError:
            raises = True
        qn = name + ".meth" if is_cls else name
        out.append({"cell": n, "raises": raises, "tags": sorted({t for (t, q) in spy.log if q == qn})})
print("VF11" + json.dumps(out))
'''

CELLS = [
    "def NAME(x: int):\n    return x\n",
    "import functools\n@functools.wraps(len)\ndef NAME(x: int):\n    return x\n",
    "class NAME:\n    def meth(self, x: int):\n        return x\n",
    "'a cell docstring'\nfrom __future__ import annotations\ndef NAME(x: int):\n    return x\n",
    "if True:\n    def NAME(x: int):\n        return x\n",
    # a cell with top-level await (IPython's autoawait): compiled with PyCF_ALLOW_TOP_LEVEL_AWAIT
    "import asyncio\nawait asyncio.sleep(0)\ndef NAME(x: int):\n    return x\n",
]

@st.composite
def ipy_history(draw):
    """cell (before anything) / load_ext / [magic X, 1..2 cells] x 2..3 with the checker usually changing."""
    ops = [["cell", CELLS[0]], ["load"], ["cell", draw(st.sampled_from(CELLS))]]
    prev = None
    for _ in range(draw(st.sampled_from([2, 3, 2]))):
        ck = draw(st.sampled_from(["a", "b"])) if prev is None else draw(st.sampled_from([{"a": "b", "b": "a"}[prev], prev, {"a": "b", "b": "a"}[prev]]))
        if prev is not None and draw(st.integers(0, 2)) == 0:
            ops.append(["reload"])  # %reload_ext jaxtyping: whatever checker is in force stays in force until the next magic
            if draw(st.booleans()):
                ops.append(["cell", draw(st.sampled_from(CELLS))])
        ops.append(["magic", ck])
        prev = ck
        for _ in range(draw(st.sampled_from([1, 2, 1]))):
            ops.append(["cell", draw(st.sampled_from(CELLS))])
    return ops


ipy_op = st.one_of(
    st.tuples(st.just("magic"), st.sampled_from(["a", "b"])),
    st.tuples(st.just("cell"), st.sampled_from(CELLS)),
    st.tuples(st.just("cell"), st.sampled_from(CELLS)),
)


def check_ipython_history(ctx, ops):
    r = subprocess.run([sys.executable, "-W", "ignore", "-c", IPY_SCRIPT, json.dumps(ops)], capture_output=True, text=True, timeout=300)
    line = [l for l in r.stdout.splitlines() if l.startswith("VF11")]
    if not line:
        raise HarnessError(f"IPython driver failed: {(r.stdout + r.stderr)[-600:]}")
    got = json.loads(line[0][4:])
    current = None
    exp = []
    for op in ops:
        if op[0] == "load":
            loaded = True
        elif op[0] == "magic":
            current = op[1]
        elif op[0] == "cell":
            exp.append(current)
    case = {"ipython": ops}
    if len(got) != len(exp):
        raise HarnessError(f"IPython driver returned {len(got)} cell results for {len(exp)} cells")
    for g, e in zip(got, exp):
        if "error" in g:
            raise Violation("ipython-cell-error", case, f"cell #{g['cell']} failed under the magic: {g['error']}; history {ops}")
        st_ = None if (not g["raises"] and not g["tags"]) else (g["tags"][0] if g["raises"] and len(g["tags"]) == 1 else f"inconsistent{g}")
        if st_ != e:
            raise Violation("ipython-instrumentation", case,
                            f"cell #{g['cell']}: its definitions are {'plain' if st_ is None else 'checked by ' + str(st_)}, the magic in force when the cell ran was {e}; history {ops}")
    ctx.note(["ipython", ops], len(set(exp)) >= 2, classes=["ipython-history"], sample={"ipython_ops": ops})
