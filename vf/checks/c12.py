"""C12 -- a check's verdict never depends on earlier, unrelated activity in the process.

(a) Fault enumeration.  A catalogue of operations routes every call-out to user / third-party code
    through harness objects that tick a counter (array .shape/.dtype, custom PyTree flattener and
    aux-data __eq__, leaf __instancecheck__, user function in a symbolic axis, the wrapped function body,
    a custom typechecker, dataclass __post_init__).  A dry run counts the N call-outs of an operation;
    then, for EVERY k <= N and each of RuntimeError, TypeError (the class the PyTree leaf test swallows),
    KeyboardInterrupt and a custom BaseException, the operation is re-run with the fault raised at the
    k-th call-out.
(b) Histories.  Hypothesis sequences (<= 20) of public-API operations without faults: checks that
    pass / fail / raise, decorating several functions that share one annotation object, lru_cache-hitting
    re-subscriptions, pickling, hook install/uninstall, generators.
Oracle: after every (a)-run and every (b)-history a fixed probe set must give the verdicts of a fresh
interpreter: wrong dtype / wrong shape rejected, right array accepted and bound, '?' outside a PyTree
raises AnnotationError, a structured '?' PyTree check still works, top level prints no bindings and is
stateless, a shared annotation object still rejects a non-array, config switches untouched, no import
hook left on sys.meta_path, and a second thread sees the same."""


import dataclasses
import pickle
import sys
import threading
import warnings
import typing
from typing import Any, Iterator

import jax.tree_util as jtu
import numpy as np
from hypothesis import given, strategies as st

import jaxtyping
from jaxtyping import AnnotationError, Float, Float32, PyTree, Shaped, TypeCheckError, jaxtyped
from vf import obs
from vf.core import Violation
from vf.gen import calls as gc

ID = "C12"
LEVEL = "fault_enumeration"
SHARDS = {"quick": 4, "thorough": 16}
RULE = (
    "(a) complete enumeration, per catalogue operation (17 operations), of (k-th call-out, exception class in {RuntimeError, TypeError, "
    "KeyboardInterrupt, custom BaseException}) for every k up to the dry-run count; (b) Hypothesis histories of 3..20 operations from a "
    "31-operation alphabet. After each, 15 probes. Non-trivial (a) = the fault fired while jaxtyping held transient state (a context "
    "pushed, the flatten-mode flag set or a leaf label set; read from the private storage at the moment of the fault, for classification "
    "only); non-trivial (b) = history containing a failing or raising check or a decoration sharing an annotation object; distinct by "
    "(operation, k, exception) resp. operation list."
)
ASSUMPTIONS = [
    "probe expectations are constants of a fresh interpreter (documented behaviour of the probed annotations)",
    "faults are raised only at call-outs the harness owns (it cannot interrupt inside C extensions)",
]


class Boom(BaseException):
    pass


EXCS = {"RuntimeError": RuntimeError, "TypeError": TypeError, "KeyboardInterrupt": KeyboardInterrupt, "Boom": Boom}


class Injector:
    def __init__(self, target=None, exc=None):
        self.n = 0
        self.target = target
        self.exc = exc
        self.fired_state = None
        self.sites = []

    def tick(self, site):
        self.n += 1
        self.sites.append(site)
        if self.target is not None and self.n == self.target:
            from jaxtyping import _storage

            try:  # (classification only; tolerate a differently organised private storage)
                self.fired_state = {
                    "site": site,
                    "stack": len(getattr(_storage._shape_storage, "memo_stack", [])),
                    "flatten": bool(_storage.get_treeflatten_memo()),
                    "label": getattr(_storage._treepath_storage, "value", None) is not None,
                }
            except Exception:
                self.fired_state = {"site": site, "stack": 1, "flatten": False, "label": False}
            raise EXCS[self.exc]("injected fault")


INJ = [Injector()]


def tick(site):
    INJ[0].tick(site)


class FDuck:
    """Duck array whose attribute reads are call-outs."""

    def __init__(self, shape, dtype="float32"):
        self._s, self._d = tuple(shape), dtype

    @property
    def shape(self):
        tick("duck.shape")
        return self._s

    @property
    def dtype(self):
        tick("duck.dtype")
        return self._d


class Aux:
    def __init__(self, v):
        self.v = v

    def __eq__(self, other):
        tick("aux.__eq__")
        return isinstance(other, Aux) and self.v == other.v

    def __hash__(self):
        return hash(self.v)


class FNode:
    def __init__(self, children, aux="n"):
        self.children = list(children)
        self.aux = Aux(aux)


def _flatten(n):
    tick("node.flatten")
    return tuple(n.children), n.aux


try:
    jtu.register_pytree_node(FNode, _flatten, lambda aux, ch: FNode(ch, aux.v))
except ValueError:
    pass


class _MetaLeaf(type):
    def __instancecheck__(cls, obj):
        tick("leaf.__instancecheck__")
        return type.__instancecheck__(cls, obj)


class LeafCls(metaclass=_MetaLeaf):
    pass


def userfn():
    tick("symbolic.userfn")
    return 3


def spy_checker(fn):
    import typeguard

    tick("typechecker.decorate")
    inner = typeguard.typechecked(fn)

    def wrapper(*a, **k):
        tick("typechecker.call")
        return inner(*a, **k)

    wrapper.__wrapped__ = fn
    return wrapper


SHARED = Float[np.ndarray, "1"]  # one annotation object mentioned by several decorated functions


# ------------------------------------------------------------------------------------------ operations
def op_array_duck():
    with jaxtyped("context"):
        return isinstance(FDuck((3, 4)), Shaped[Any, "a b"])


def op_array_duck_variadic():
    with jaxtyped("context"):
        isinstance(FDuck((3,)), Shaped[Any, "a"])
        return isinstance(FDuck((3, 5, 6, 4)), Shaped[Any, "a *v b"])


def op_array_duck_fail():
    with jaxtyped("context"):
        return isinstance(FDuck((3, 4)), Shaped[Any, "a a"])


def op_pytree_custom():
    with jaxtyped("context"):
        tree = FNode([FDuck((3,)), FNode([FDuck((3,)), FDuck((3,))], "m")])
        return isinstance(tree, PyTree[Shaped[Any, "a"], "T"])


def op_pytree_custom_twice():
    with jaxtyped("context"):
        t1 = FNode([FDuck((3,)), FDuck((4,))])
        t2 = FNode([FDuck((3,)), FDuck((4,))])
        return isinstance(t1, PyTree[Shaped[Any, "?k"], "T"]) and isinstance(t2, PyTree[Shaped[Any, "?k"], "T"])


def op_pytree_leafcls():
    with jaxtyped("context"):
        return isinstance([LeafCls(), (LeafCls(), 3)], PyTree[LeafCls])


def op_pytree_q():
    with jaxtyped("context"):
        return isinstance((FDuck((3,)), [FDuck((4,))]), PyTree[Shaped[Any, "?foo"], "T"])


def op_pytree_nested():
    with jaxtyped("context"):
        return isinstance((FDuck((3,)), FDuck((3,))), PyTree[PyTree[Shaped[Any, "?foo"]], "T"])


def op_pytree_composite():
    with jaxtyped("context"):
        isinstance(FNode([1, 2]), PyTree[int, "T"])
        isinstance((1, 2), PyTree[int, "S"])
        return isinstance((FNode([1, 2]), FNode([3, 4])), PyTree[int, "S T"])


def op_symbolic():
    @jaxtyped(typechecker=None)
    def f(x, userfn):
        return isinstance(x, Shaped[Any, "a {userfn()}"])

    return f(FDuck((5, 3)), userfn)


def _body(x):
    tick("wrapped.body")
    return x


def op_call_new():
    @jaxtyped(typechecker=gc.checker("typeguard"))
    def f(x: Shaped[Any, "a b"], y: Shaped[Any, "b"]) -> Shaped[Any, "a b"]:
        return _body(x)

    return f(FDuck((3, 4)), FDuck((4,)))


def op_call_beartype():
    @jaxtyped(typechecker=gc.checker("beartype"))
    def f(x: Shaped[Any, "a b"]) -> Shaped[Any, "a b"]:
        return _body(x)

    return f(FDuck((3, 4)))


def op_call_old():
    with warnings.catch_warnings():
        warnings.simplefilter("ignore")

        @jaxtyped
        @gc.checker("typeguard")
        def f(x: Shaped[Any, "a b"]) -> Shaped[Any, "a b"]:
            return _body(x)

    return f(FDuck((3, 4)))


def op_call_illtyped():
    @jaxtyped(typechecker=gc.checker("typeguard"))
    def f(x: Shaped[Any, "a b"], y: Shaped[Any, "a"]):
        return _body(x)

    try:
        return f(FDuck((3, 4)), FDuck((5,)))
    except TypeCheckError:
        return "rejected"


def op_custom_checker():
    @jaxtyped(typechecker=spy_checker)
    def f(x: Shaped[Any, "a"]) -> Shaped[Any, "a"]:
        return _body(x)

    return f(FDuck((3,)))


def op_dataclass():
    @jaxtyped(typechecker=gc.checker("typeguard"))
    @dataclasses.dataclass
    class D:
        x: Shaped[Any, "a b"]

        def __post_init__(self):
            tick("dataclass.__post_init__")

    return D(FDuck((3, 4)))


def op_pytree_in_call():
    @jaxtyped(typechecker=gc.checker("typeguard"))
    def f(t: PyTree[Shaped[Any, "?k"], "T"], u: PyTree[Shaped[Any, "?k"], "T"]):
        return _body(t)

    return f(FNode([FDuck((3,)), FDuck((4,))]), FNode([FDuck((3,)), FDuck((4,))]))


FAULT_OPS = {
    "array-duck": op_array_duck, "array-duck-variadic": op_array_duck_variadic, "array-duck-fail": op_array_duck_fail,
    "pytree-custom": op_pytree_custom, "pytree-custom-twice": op_pytree_custom_twice, "pytree-leafcls": op_pytree_leafcls, "pytree-q": op_pytree_q,
    "pytree-nested": op_pytree_nested, "pytree-composite": op_pytree_composite, "symbolic": op_symbolic, "call-new": op_call_new,
    "call-beartype": op_call_beartype, "call-old": op_call_old, "call-illtyped": op_call_illtyped, "custom-checker": op_custom_checker,
    "dataclass": op_dataclass, "pytree-in-call": op_pytree_in_call,
}


# ------------------------------------------------------------------------------------------ probes
def probes_once():
    """-> list of (name, observed, expected)"""
    out = []
    a34 = np.zeros((3, 4), dtype="float32")
    out.append(("top-level prints nothing", obs.raw_bindings().strip(), ""))
    out.append(("wrong dtype and shape rejected (flatten mode off)", obs.verdict(np.zeros((2, 2), dtype="int32"), Float[np.ndarray, "q"]), "False"))
    out.append(("wrong dtype rejected", obs.verdict(np.zeros((3,), dtype="int32"), Float[np.ndarray, "q"]), "False"))
    out.append(("wrong rank rejected", obs.verdict(a34, Float32[np.ndarray, "q"]), "False"))
    out.append(("'?' outside a PyTree raises", obs.verdict(np.zeros((3,)), Shaped[np.ndarray, "?q"]), "AnnotationError"))
    out.append(("top level stateless 1", obs.verdict(np.zeros((3,)), Shaped[np.ndarray, "vf12"]), "True"))
    out.append(("top level stateless 2", obs.verdict(np.zeros((4,)), Shaped[np.ndarray, "vf12"]), "True"))
    with jaxtyped("context"):
        out.append(("right array accepted", obs.verdict(a34, Float32[np.ndarray, "a b"]), "True"))
        out.append(("bound afterwards", obs.bindings()[0], {"a": 3, "b": 4}))
        out.append(("conflicting shape rejected", obs.verdict(np.zeros((3, 5), dtype="float32"), Float32[np.ndarray, "a b"]), "False"))
        out.append(("structured '?' PyTree works", obs.verdict((np.zeros((3,)), np.zeros((4,))), PyTree[Shaped[np.ndarray, "?k"], "T"]), "True"))
        out.append(("PyTree[int] rejects a str leaf", obs.verdict([1, "s"], PyTree[int]), "False"))
        out.append(("PyTree leaf with wrong dtype rejected", obs.verdict((np.zeros((3,), dtype="int32"),), PyTree[Float[np.ndarray, "n"]]), "False"))
    out.append(("instance lacking a member of the Protocol array type rejected", obs.verdict(ProtoValue((3,), "float32", complete=False), Float[ArrayProto, "n"]), "False"))
    out.append(("shared annotation rejects a non-array", obs.verdict("a string", SHARED), "False"))
    out.append(("shared annotation rejects a wrong shape", obs.verdict(np.zeros((2, 2), dtype="float32"), SHARED), "False"))
    out.append(("config switches untouched", (bool(jaxtyping.config.jaxtyping_disable), bool(jaxtyping.config.jaxtyping_remove_typechecker_stack)), (False, False)))
    from jaxtyping._import_hook import _JaxtypingFinder

    out.append(("no import hook left installed", sum(isinstance(f, _JaxtypingFinder) for f in sys.meta_path), 0))
    return out


def run_probes(case, what):
    res = probes_once()
    box = []
    th = threading.Thread(target=lambda: box.append(probes_once()))
    th.start()
    th.join()
    for label, rs in (("", res), (" [second thread]", box[0] if box else [("thread died", None, "ok")])):
        for name, got, exp in rs:
            if got != exp:
                raise Violation("probe", case, f"after {what}: probe '{name}'{label} gave {got!r}, a fresh interpreter gives {exp!r}")


# ------------------------------------------------------------------------------------------ (a) faults
def run_fault_case(ctx, opname, k, exc):
    obs.reset_state()
    if k == 0:
        try:
            FAULT_OPS[opname]()
        except BaseException as e:  # noqa: BLE001
            raise Violation("operation-failed-without-fault", {"fault": [opname, 0, "none"]}, f"catalogue operation {opname} raised {type(e).__name__} without any injected fault")
        return
    inj = Injector(k, exc)
    INJ[0] = inj
    try:
        try:
            FAULT_OPS[opname]()
            outcome = "completed"
        except BaseException as e:  # noqa: BLE001
            outcome = type(e).__name__
    finally:
        INJ[0] = Injector()
    st_ = inj.fired_state
    case = {"fault": [opname, k, exc]}
    run_probes(case, f"operation {opname} with {exc} injected at call-out #{k} ({st_['site'] if st_ else 'not reached'}), which ended with {outcome}")
    inside = bool(st_ and (st_["stack"] > 0 or st_["flatten"] or st_["label"]))
    ctx.note(["fault", opname, k, exc], inside,
             classes=[f"op-{opname}", f"exc-{exc}", f"outcome-{outcome}"] + ([f"site-{st_['site']}"] if st_ else ["not-reached"])
             + (["in-flatten-mode"] if st_ and st_["flatten"] else []) + (["leaf-label-set"] if st_ and st_["label"] else []) + (["context-pushed"] if st_ and st_["stack"] else []),
             sample={"operation": opname, "fault_at_callout": k, "site": st_ and st_["site"], "exception": exc, "operation_outcome": outcome,
                     "state_when_fired": st_})
    obs.reset_state()


def enumerate_faults(ctx):
    jobs = []
    for opname, fn in FAULT_OPS.items():
        obs.reset_state()
        inj = Injector()
        INJ[0] = inj
        try:
            fn()
        except BaseException as e:  # noqa: BLE001
            raise Violation("operation-failed-without-fault", {"fault": [opname, 0, "none"]}, f"catalogue operation {opname} raised {type(e).__name__}: {str(e)[:200]} without any injected fault")
        finally:
            INJ[0] = Injector()
        n = inj.n
        ctx.extra.setdefault("callouts_per_operation", []).append(f"{opname}:{n}") if ctx.shard == 0 else None
        for k in range(1, n + 1):
            for exc in EXCS:
                jobs.append((opname, k, exc))
    ctx.extra["fault_cases_total"] = len(jobs) if ctx.shard == 0 else 0
    if ctx.tier == "quick":
        # quick: every (operation, k) with two exception classes rotating, thorough: all four
        jobs = [j for i, j in enumerate(jobs) if (i % 4) in ((i // 4) % 4, ((i // 4) + 2) % 4)]
    for i, (opname, k, exc) in enumerate(jobs):
        if i % ctx.nshards != ctx.shard:
            continue
        run_fault_case(ctx, opname, k, exc)


# ------------------------------------------------------------------------------------------ (b) histories
def h_check_pass():
    with jaxtyped("context"):
        isinstance(np.zeros((3, 4), dtype="float32"), Float[np.ndarray, "a b"])


def h_check_fail():
    with jaxtyped("context"):
        isinstance(np.zeros((3, 4), dtype="float32"), Float[np.ndarray, "a a"])


def h_check_raise():
    with jaxtyped("context"):
        try:
            isinstance(np.zeros((3, 4)), Shaped[np.ndarray, "a zz+1"])
        except AnnotationError:
            pass


def h_toplevel_check():
    isinstance(np.zeros((3,)), Shaped[np.ndarray, "vf12"])


def h_pytree_pass():
    with jaxtyped("context"):
        isinstance((np.zeros(3), [np.zeros(3)]), PyTree[Shaped[np.ndarray, "a"], "T"])


def h_pytree_fail():
    with jaxtyped("context"):
        isinstance((np.zeros(3), [np.zeros(4)]), PyTree[Shaped[np.ndarray, "a"], "T"])


def h_pytree_q_misuse():
    for ann in (PyTree[Shaped[np.ndarray, "?q"]], PyTree[PyTree[Shaped[np.ndarray, "?q"], "S"], "T"]):
        with jaxtyped("context"):
            try:
                isinstance((np.zeros(3), np.zeros(4)), ann)
            except AnnotationError:
                pass


def h_pytree_unbound_composite():
    with jaxtyped("context"):
        try:
            isinstance((1, 2), PyTree[int, "S T"])
        except AnnotationError:
            pass


def _decorate_shared(ck, new=True):
    def f(x: SHARED) -> SHARED:
        return x

    with warnings.catch_warnings():
        warnings.simplefilter("ignore")
        g = jaxtyped(typechecker=gc.checker(ck))(f) if new else jaxtyped(gc.checker(ck)(f))
    g(np.zeros((1,), dtype="float32"))
    try:
        g(np.zeros((2,), dtype="float32"))
    except Exception:
        pass


def h_decorate_shared_tg():
    _decorate_shared("typeguard")


def h_decorate_shared_bt():
    _decorate_shared("beartype")


def h_decorate_shared_old():
    _decorate_shared("typeguard", new=False)


def _gen(ann, new, ck="typeguard"):
    def g(x):
        yield x

    g.__annotations__ = {"x": ann, "return": Iterator[ann]}

    with warnings.catch_warnings():
        warnings.simplefilter("ignore")
        h = jaxtyped(typechecker=gc.checker(ck))(g) if new else jaxtyped(gc.checker(ck)(g))
    list(h(np.zeros((1,), dtype="float32")))


def h_generator_new_shared():
    _gen(SHARED, True)


def h_generator_old_fresh():
    _gen(Float[np.ndarray, "1"], False)


def h_generator_old_shared():
    # KNOWN FINDING (make_transparent mutates the shared annotation object): only reachable through the
    # known-findings replay, excluded from the generated histories (counted as excluded_known)
    _gen(SHARED, False)


def h_deep_recursion():
    """A decorated function recursing 130 levels deep (well inside the interpreter's limit): 130 contexts are open at once on this thread,
    all of them are closed again afterwards -- whatever the warnings configuration."""
    @jaxtyped(typechecker=gc.checker("typeguard"))
    def down(x: Shaped[np.ndarray, "vf12deep"], k: int) -> Shaped[np.ndarray, "vf12deep"]:
        return x if k == 0 else down(x, k - 1)

    out = down(np.zeros((3,)), 130)
    assert out.shape == (3,)


def h_recursion_error_through_contexts():
    """A runaway recursion through `with jaxtyped("context")` blocks (checking before or after recursing) ends in RecursionError, caught
    here; wherever in jaxtyping's enter / exit code the interpreter's limit happened to be reached -- 14 alignments are tried by putting
    0..13 plain frames underneath -- every context that was entered is closed again (the probes that follow look at the leftovers)."""
    def rec_post(x):
        with jaxtyped("context"):
            rec_post(np.zeros((x.shape[0] + 1,), dtype="float32"))
            assert isinstance(x, Float[np.ndarray, "vf12rec"])
        return x

    def rec_pre(x):
        with jaxtyped("context"):
            assert isinstance(x, Float[np.ndarray, "vf12rec"])
            rec_pre(np.zeros((x.shape[0] + 1,), dtype="float32"))
        return x

    def pad(k, f, x):
        return f(x) if k == 0 else pad(k - 1, f, x)

    old = sys.getrecursionlimit()
    import inspect

    depth = len(inspect.stack(0))
    for f in (rec_post, rec_pre):
        for k in range(14):
            sys.setrecursionlimit(depth + 160)
            try:
                pad(k, f, np.zeros((1,), dtype="float32"))
            except RecursionError:
                pass
            finally:
                sys.setrecursionlimit(old)


def h_generator_old_private_pytree_twin():
    """A private annotation object L is the leaf type of a PyTree annotation and then the annotation of an old-style generator (whatever
    jaxtyping does to L concerns L alone); a PyTree annotation over a freshly written, identically spelled leaf type is unaffected."""
    L = Float[np.ndarray, "vf12priv"]
    got0 = obs.verdict([np.zeros((1,), dtype="float32")], PyTree[L])
    _gen(L, False)
    fresh = PyTree[Float[np.ndarray, "vf12priv"]]
    got = obs.verdict([np.zeros((3, 3), dtype="int32")], fresh)
    if got0 != "True" or got != "False":
        raise Violation("probe", {"history": ["generator-old-private-pytree-twin"]},
                        f"PyTree[L] with L = Float[ndarray,'vf12priv'] on a float32 (1,) leaf: {got0}; after L was used on an old-style generator, a freshly written "
                        f"PyTree[Float[ndarray,'vf12priv']] gave {got} for an int32 (3,3) leaf (expected False)")


def h_generator_old_unpickled():
    """An annotation that came out of pickle is private to whoever loaded it: using it on an old-style generator
    must not change what an independently loaded equal annotation accepts."""
    ann1 = pickle.loads(pickle.dumps(Float[np.ndarray, "2"]))
    _gen_ann(ann1)
    ann2 = pickle.loads(pickle.dumps(Float[np.ndarray, "2"]))
    got = obs.verdict(np.zeros((3, 3), dtype="int32"), ann2)
    if got != "False":
        raise Violation("probe", {"history": ["generator-old-unpickled"]}, f"an independently unpickled Float[ndarray,'2'] gave {got} for an int32 (3,3) array after an equal unpickled annotation was used on an old-style generator")


def _gen_ann(ann):
    def g(x):
        yield x

    g.__annotations__ = {"x": ann, "return": Iterator[ann]}
    with warnings.catch_warnings():
        warnings.simplefilter("ignore")
        h = jaxtyped(gc.checker("typeguard")(g))
    list(h(np.zeros((2,), dtype="float32")))  # (2,) fits both "2" and a one-axis spec


def h_generator_old_pytree():
    """PyTree[int] is one cached class object process-wide: decorating a generator that mentions it must not change it."""
    def g(x):
        yield x

    g.__annotations__ = {"x": int, "return": Iterator[PyTree[int]]}
    with warnings.catch_warnings():
        warnings.simplefilter("ignore")
        h = jaxtyped(g)
        h2 = jaxtyped(typechecker=None)(g)
    list(h(1)), list(h2(2))


def h_generator_old_inner_outer():
    """An annotation that EXTENDS another one is a different annotation: whatever the old-style generator support does to
    the inner one it was given must not change what the extension accepts."""
    inner = Float[np.ndarray, "c"]
    outer_before = Shaped[inner, "b"]
    _gen_ann(inner)
    outer_after = jaxtyping.Float[inner, "b"]
    bad = np.zeros((2, 3), dtype="int32")
    for name, outer in (("built before", outer_before), ("built after", outer_after)):
        got = (obs.verdict(bad, outer), obs.verdict(np.zeros((2,), dtype="float32"), outer))
        if got != ("False", "False"):
            raise Violation("probe", {"history": ["generator-old-inner-outer"]}, f"Dtype[Inner,'b'] ({name} an old-style generator was decorated with Inner) gave {got} for a wrong-dtype / wrong-rank array")


def h_resubscribe():
    for _ in range(3):
        a = Float[np.ndarray, "1"]
        b = PyTree[int, "T"]
        assert a is not None and b is PyTree[int, "T"]


def h_pickle():
    for ann in (SHARED, Shaped[Float[np.ndarray, "c"], "b"]):
        pickle.loads(pickle.dumps(ann))
    import cloudpickle

    cloudpickle.loads(cloudpickle.dumps(SHARED))


def h_hook():
    from jaxtyping import install_import_hook

    with install_import_hook("vf_no_such_package_12", "typeguard.typechecked"):
        pass
    h = install_import_hook(["vf_no_such_package_12"], None)
    h.uninstall()


def h_hook_exception():
    from jaxtyping import install_import_hook

    try:
        with install_import_hook("vf_no_such_package_12", "beartype.beartype"):
            raise RuntimeError("inside with")
    except RuntimeError:
        pass


def h_config_roundtrip():
    jaxtyping.config.update("jaxtyping_disable", "1")
    jaxtyping.config.update("jaxtyping_disable", False)
    try:
        jaxtyping.config.update("jaxtyping_disable", "maybe")
    except ValueError:
        pass


def h_call_ok():
    op_call_new()


def h_call_ill():
    op_call_illtyped()


def h_call_raises():
    @jaxtyped(typechecker=gc.checker("beartype"))
    def f(x: Shaped[np.ndarray, "a"]):
        raise KeyboardInterrupt

    try:
        f(np.zeros(3))
    except KeyboardInterrupt:
        pass


def h_thread_activity():
    th = threading.Thread(target=h_pytree_fail)
    th.start()
    th.join()


def h_name_format():
    old = jaxtyping.get_array_name_format()
    jaxtyping.set_array_name_format("array")
    Float[np.ndarray, "nf"]
    jaxtyping.set_array_name_format(old)


_SUSPENDED = []


def h_generator_none_suspended():
    """A generator function decorated with jaxtyped(typechecker=None) whose body makes manual checks; it is advanced once and then
    left suspended (a pipeline stage waiting for its consumer) while the program goes on."""
    def g(x):
        assert isinstance(x, Shaped[np.ndarray, "vf12"])
        yield 1
        assert isinstance(x, Shaped[np.ndarray, "vf12"])
        yield 2

    with warnings.catch_warnings():
        warnings.simplefilter("ignore")
        gen = jaxtyped(typechecker=None)(g)(np.zeros((3,)))
    assert next(gen) == 1
    _SUSPENDED.append(gen)


def h_forward_reference_early_call():
    """Two identical functions are decorated while the name in their (string) annotation does not exist yet; one of them is called
    once -- well typed -- before the name gets defined.  Afterwards both must treat an ill-typed argument alike: what an earlier
    call did is unrelated activity."""
    g = globals()
    g.pop("VF12_LATER", None)
    fns = []
    for _ in range(2):
        def f(x):
            return 0

        f.__annotations__ = {"x": "VF12_LATER"}
        with warnings.catch_warnings():
            warnings.simplefilter("ignore")
            fns.append(jaxtyped(typechecker=gc.checker("typeguard"))(f))
    try:
        fns[0](np.zeros((2, 2), dtype="float32"))  # the early call
        g["VF12_LATER"] = Float32[np.ndarray, "2 2"]
        outcomes = []
        for fn in fns:
            try:
                fn("not an array")
                outcomes.append("accepted")
            except TypeCheckError:
                outcomes.append("TypeCheckError")
        if outcomes[0] != outcomes[1]:
            raise Violation("probe", {"history": ["forward-reference-early-call"]},
                            f"two identically decorated functions with a forward-reference annotation: the one that had been called once before the name "
                            f"was defined gives {outcomes[0]} on an ill-typed argument, the other one {outcomes[1]}")
    finally:
        g.pop("VF12_LATER", None)


def h_address_reuse():
    """Inside one context: a temporary array passes a check and is freed; another array that happens to be allocated at the same
    address (same id()) is checked against the same annotation object: the verdict is about the new array."""
    ann = Float32[np.ndarray, "vfr1 3"]
    with jaxtyped("context"):
        tmp = np.zeros((4, 3), dtype="float32")
        assert isinstance(tmp, ann)
        addr = id(tmp)
        del tmp
        keep = []
        for _ in range(300):
            other = np.zeros((7,), dtype="int64")
            if id(other) == addr:
                if isinstance(other, ann):
                    raise Violation("probe", {"history": ["address-reuse"]},
                                    "inside one context, an int64 array of shape (7,) allocated at the address of a freed array that had passed Float32[ndarray, 'vfr1 3'] was accepted by that annotation")
                break
            keep.append(other)


@typing.runtime_checkable
class ArrayProto(typing.Protocol):
    """a structural array type whose members are per-instance data attributes"""

    shape: tuple
    dtype: Any
    data: Any


class ProtoValue:
    def __init__(self, shape, dtype, complete=True):
        self.shape = shape
        self.dtype = np.dtype(dtype)
        if complete:
            self.data = b""


def h_protocol_array_pass():
    """A runtime-checkable Protocol as the array type: a conforming instance is accepted, at top level, as an argument and as a leaf."""
    ann = Float[ArrayProto, "n"]
    assert isinstance(ProtoValue((3,), "float32"), ann)
    with jaxtyped("context"):
        assert isinstance([ProtoValue((3,), "float32"), ProtoValue((3,), "float64")], PyTree[ann])


def h_pytree_union_inner_structured():
    """An outer structure-less PyTree whose leaf type is Union[str, <structured PyTree with a '?' axis>]: while the outer check looks
    for leaves, the inner structured check is tried on containers it does not match.  The outer check passes; nothing of the inner
    attempt may stay behind (the probes look at '?' outside a PyTree and at the next structured check)."""
    from typing import Union

    ann = PyTree[Union[str, PyTree[Shaped[np.ndarray, "?n"], "T"]]]
    assert isinstance(["a", "b"], ann)
    assert isinstance({"k": ["a"], "j": "b"}, ann)
    with jaxtyped("context"):
        assert isinstance(["a", ("b", "c")], ann)


HISTORY_OPS = {
    "check-pass": h_check_pass, "check-fail": h_check_fail, "check-raise": h_check_raise, "toplevel-check": h_toplevel_check,
    "pytree-pass": h_pytree_pass, "pytree-fail": h_pytree_fail, "pytree-q-misuse": h_pytree_q_misuse, "pytree-unbound-composite": h_pytree_unbound_composite,
    "decorate-shared-typeguard": h_decorate_shared_tg, "decorate-shared-beartype": h_decorate_shared_bt, "decorate-shared-old": h_decorate_shared_old,
    "deep-recursion": h_deep_recursion, "recursion-error-through-contexts": h_recursion_error_through_contexts, "generator-old-unpickled": h_generator_old_unpickled, "generator-old-private-pytree-twin": h_generator_old_private_pytree_twin, "generator-old-inner-outer": h_generator_old_inner_outer, "generator-old-pytree": h_generator_old_pytree, "generator-new-shared": h_generator_new_shared, "generator-old-fresh": h_generator_old_fresh, "generator-old-shared": h_generator_old_shared,
    "resubscribe": h_resubscribe, "pickle": h_pickle, "hook": h_hook, "hook-exception": h_hook_exception, "config-roundtrip": h_config_roundtrip,
    "pytree-union-inner-structured": h_pytree_union_inner_structured, "protocol-array-pass": h_protocol_array_pass, "address-reuse": h_address_reuse, "generator-none-suspended": h_generator_none_suspended, "forward-reference-early-call": h_forward_reference_early_call,
    "call-ok": h_call_ok, "call-ill": h_call_ill, "call-raises": h_call_raises, "thread-activity": h_thread_activity, "name-format": h_name_format,
}
KNOWN_EXCLUDED = {"generator-old-shared"}
INTERESTING = {"check-fail", "check-raise", "pytree-fail", "pytree-q-misuse", "pytree-unbound-composite", "decorate-shared-typeguard", "decorate-shared-beartype",
               "decorate-shared-old", "generator-new-shared", "call-ill", "call-raises", "hook-exception", "generator-none-suspended", "forward-reference-early-call", "address-reuse", "pytree-union-inner-structured", "protocol-array-pass", "deep-recursion", "recursion-error-through-contexts"}


def reset_shared():
    """Undo the known finding's damage so that later cases are independent of it."""
    try:
        SHARED._skip_instancecheck = False
    except Exception:
        pass
    while _SUSPENDED:
        try:
            _SUSPENDED.pop().close()
        except BaseException:  # noqa: BLE001
            pass


def run_history(ctx, ops, allow_known=False):
    obs.reset_state()
    reset_shared()
    todo = []
    for o in ops:
        if o in KNOWN_EXCLUDED and not allow_known:
            ctx.excluded_known += 1
            continue
        todo.append(o)
    try:
        for i, o in enumerate(todo):
            try:
                HISTORY_OPS[o]()
            except Violation:
                raise
            except BaseException as e:  # noqa: BLE001
                # every operation is a piece of valid client code that completes on its own: if it fails here, earlier operations did that
                raise Violation("probe", {"history": todo}, f"operation #{i} '{o}' of history {todo}, which completes when run first, raised {type(e).__name__}: {str(e)[:200]}")
        run_probes({"history": todo}, f"history {todo}")
    finally:
        reset_shared()
        obs.reset_state()
    ctx.note(["history", todo], bool(set(todo) & INTERESTING), classes=["history"] + [f"h-{o}" for o in sorted(set(todo))], sample={"history": todo})


def finding_key(case, clause):
    if "history" in case and "generator-old-shared" in case["history"] and clause == "probe":
        return "C12:make_transparent-shared-annotation"
    return None


def run(ctx):
    try:
        enumerate_faults(ctx)
    except Violation as v:
        ctx.record(v)

    @given(st.lists(st.sampled_from(sorted(HISTORY_OPS)), min_size=3, max_size=20))
    def histories(ops):
        run_history(ctx, ops)

    ctx.hyp(histories, max_examples=ctx.n(150, 1500))


def replay(case, clause, ctx):
    try:
        if "fault" in case:
            run_fault_case(ctx, *case["fault"])
        else:
            run_history(ctx, case["history"], allow_known=True)
    except Violation as v:
        return str(v)
    return None
