"""C14 -- the dim-string language: modifier order is free, illegal forms are ValueError.

Engines (DESIGN §5 C14):
  1. exhaustive enumeration of single tokens: every modifier string of length <=4 over '#*_?'
     (repeats included) x every position of a 'doc=' prefix x 5 base classes, and all ordered
     pairs of a representative token set;
  2. Hypothesis: sequences of <=4 arbitrary (legal or illegal) tokens with arbitrary whitespace,
     non-string specs, and raw text over the language's alphabet (totality);
  3. atheris coverage-guided target (vf/fuzz_c14.py) over the same token decoder + raw text, with the legality /
     totality / meaning oracle inside the target (8 s quick, 16 x 60 s thorough; skipped if atheris does not import).
Oracle: token layer of vf.models.dimlang: illegal => ValueError exactly; legal => builds and its
acceptance vector (verdict + bindings over a probe set of shapes x 3 prior contexts, inside a
structured PyTree for '?') equals that of the canonical spelling and the reference matcher's
verdict; anything else => builds or ValueError (never another exception)."""
from __future__ import annotations

import itertools

import numpy as np
from hypothesis import given, strategies as st

from jaxtyping import PyTree, Shaped, jaxtyped
from vf import obs
from vf.core import Violation
from vf.gen import dims as gd
from vf.models import dimlang as dl
from vf.models.dimlang import Token

ID = "C14"
LEVEL = "exploration"
SHARDS = {"quick": 1, "thorough": 16}
RULE = (
    "Engine 1 enumerates all 341 modifier strings (length<=4 over #*_?) x doc= positions x bases "
    "{identifier, integer, symbolic, empty, ...} and all ordered pairs of 40 representative tokens; engine 2 "
    "(Hypothesis) draws sequences of <=4 legal/illegal tokens with Unicode-free arbitrary whitespace runs, "
    "non-string specs and raw text. Non-trivial = token with >=2 modifier characters or a doc= prefix, or a "
    "multi-token sequence containing one; distinct by exact spelling."
)
ASSUMPTIONS = [
    "legality rules and meanings typed from docs/api/array.md and the C14 statement (vf/models/dimlang.py Token.legal/meaning)",
    "forms the documentation leaves open (modifier on an empty base without '_', 'a=b=3', signed/underscored integers) are checked for totality only",
    "acceptance vectors use NumPy arrays and the Shaped category; probe set of 14 shapes x 3 prior contexts",
]

PROBE_SHAPES = [(), (1,), (3,), (4,), (0,), (1, 1), (3, 1), (1, 3), (3, 3), (3, 4), (4, 3), (2, 3, 4), (1, 3, 4), (3, 3, 3)]
BASES = [("name", "a"), ("int", 3), ("sym", ("bin", "+", ("name", "a"), ("int", 1))), ("empty", None), ("ellipsis", None)]


def setup_context(cid):
    """Prior context built through real checks; returns the model context."""
    m = dl.MCtx()
    if cid == 1:
        assert isinstance(np.zeros((3,)), Shaped[np.ndarray, "a"])
        assert isinstance(np.zeros((3,)), Shaped[np.ndarray, "*v"])
        m.single["a"] = 3
        m.variadic["v"] = (False, (3,))
    elif cid == 2:
        assert isinstance(np.zeros((4,)), Shaped[np.ndarray, "a"])
        assert isinstance(np.zeros((1, 3)), Shaped[np.ndarray, "*#v"])
        m.single["a"] = 4
        m.variadic["v"] = (True, (1, 3))
    return m


def build(spec):
    """-> ('ok', annotation) | ('ValueError', msg) | ('other', repr)"""
    try:
        return "ok", Shaped[np.ndarray, spec]
    except ValueError as e:
        return "ValueError", str(e)
    except BaseException as e:  # noqa: BLE001
        return "other", f"{type(e).__name__}: {e}"


def build_scalar(spec):
    try:
        return "ok", Shaped[float, spec]
    except ValueError as e:
        return "ValueError", str(e)
    except BaseException as e:  # noqa: BLE001
        return "other", f"{type(e).__name__}: {e}"


def vector(ann, uses_q):
    out = []
    for cid in (0, 1, 2):
        for shape in PROBE_SHAPES:
            with jaxtyped("context"):
                setup_context(cid)
                if uses_q:
                    tree = (np.zeros(shape), np.zeros(shape[::-1]))
                    v = obs.verdict(tree, PyTree[ann, "T"])
                    v2 = obs.verdict((np.zeros(shape), np.zeros(shape)), PyTree[ann, "T"])
                    out.append((v, v2, obs.raw_bindings()))
                else:
                    v = obs.verdict(np.zeros(shape), ann)
                    out.append((v, obs.raw_bindings()))
    return out


def model_verdicts(meanings):
    out = []
    for cid in (0, 1, 2):
        m = dl.MCtx()
        if cid == 1:
            m.single["a"] = 3
            m.variadic["v"] = (False, (3,))
        elif cid == 2:
            m.single["a"] = 4
            m.variadic["v"] = (True, (1, 3))
        for shape in PROBE_SHAPES:
            out.append(dl.match(meanings, shape, m).allowed)
    return out


_canon_cache = {}


def check_spec(ctx, tokens, seps=None, *, probe=True):
    """Decide one spec; raises Violation."""
    spec = dl.spec_spelling(tokens, seps)
    legal = dl.spec_legal(tokens)
    kind, res = build(spec)
    case = {"tokens": [[t.mods, t.base_kind, t.base, t.doc, t.docpos] for t in tokens], "seps": seps, "spec": spec}
    nmods = max((len(t.mods) + (1 if t.doc is not None else 0) for t in tokens), default=0)
    ctx.note(spec, nmods >= 2, classes=[f"legal-{legal}", f"built-{kind}", f"ntokens-{len(tokens)}"],
             sample={"spec": spec, "legal": legal, "result": kind})
    if kind == "other":
        raise Violation("totality", case, f"building Shaped[np.ndarray, {spec!r}] raised {res} (only ValueError is allowed)")
    if legal is False and kind != "ValueError":
        raise Violation("illegal-accepted", case, f"illegal spec {spec!r} was accepted")
    if legal is True and kind != "ok":
        raise Violation("legal-rejected", case, f"legal spec {spec!r} rejected with ValueError: {res}")
    # the same rules hold when the array type is a Python scalar type: an illegal spec is a ValueError all the same, a legal one gives
    # the scalar type itself or ValueError (shape does not admit rank 0) -- exactly what its canonical spelling gives
    sk, sres = build_scalar(spec)
    if sk == "other":
        raise Violation("totality", dict(case, array_type="float"), f"building Shaped[float, {spec!r}] raised {sres} (only ValueError is allowed)")
    if legal is False and sk != "ValueError":
        raise Violation("illegal-accepted", dict(case, array_type="float"), f"illegal spec {spec!r} was accepted with the scalar array type float (result {sres!r})")
    if legal is True:
        canon0 = dl.spec_spelling(dl.canonical_tokens([t.meaning() for t in tokens]))
        ck_, cres = build_scalar(canon0)
        if (sk, sres if sk == "ok" else None) != (ck_, cres if ck_ == "ok" else None):
            raise Violation("meaning-differs", dict(case, array_type="float"),
                            f"Shaped[float, {spec!r}] gives {sk} {sres if sk == 'ok' else ''} but its canonical spelling {canon0!r} gives {ck_} {cres if ck_ == 'ok' else ''}")
    if legal is not True or not probe:
        return
    meanings = [t.meaning() for t in tokens]
    canon = dl.spec_spelling(dl.canonical_tokens(meanings))
    uses_q = any(m[0] in ("named", "namedvar") and m[3] for m in meanings)
    key = (canon, uses_q)
    if key not in _canon_cache:
        k2, cann = build(canon)
        if k2 != "ok":
            raise Violation("legal-rejected", dict(case, spec=canon), f"canonical spelling {canon!r} rejected: {cann}")
        _canon_cache[key] = vector(cann, uses_q)
        if len(_canon_cache) > 4000:
            _canon_cache.clear()
    vec_c = _canon_cache[key]
    if spec == canon:
        vec = vec_c
    else:
        vec = vector(res, uses_q)
    if vec != vec_c:
        i = next(i for i, (x, y) in enumerate(zip(vec, vec_c)) if x != y)
        raise Violation(
            "meaning-differs", case,
            f"{spec!r} and its canonical spelling {canon!r} differ on probe #{i} "
            f"(context {i // len(PROBE_SHAPES)}, shape {PROBE_SHAPES[i % len(PROBE_SHAPES)]}): {vec[i]} vs {vec_c[i]}",
        )
    if not uses_q:
        exp = model_verdicts(meanings)
        for i, (got, allowed) in enumerate(zip(vec, exp)):
            if got[0] not in allowed:
                raise Violation(
                    "meaning-vs-model", case,
                    f"{spec!r} on shape {PROBE_SHAPES[i % len(PROBE_SHAPES)]} in context {i // len(PROBE_SHAPES)}: "
                    f"{got[0]}, reference allows {sorted(allowed)}",
                )
    ctx.extra["vectors_compared"] = ctx.extra.get("vectors_compared", 0) + 1


def all_tokens():
    for n in range(0, 5):
        for mods in itertools.product(dl.MODS, repeat=n):
            mods = "".join(mods)
            for bk, base in BASES:
                yield Token(mods, bk, base)
                for pos in range(0, n + 1):
                    yield Token(mods, bk, base, "doc", pos)


REPRESENTATIVE = [
    Token("", "name", "a"), Token("#", "name", "a"), Token("_", "name", "a"), Token("_", "empty", None),
    Token("?", "name", "a"), Token("*", "name", "v"), Token("*#", "name", "v"), Token("#*", "name", "v"),
    Token("*_", "empty", None), Token("_*", "name", "v"), Token("", "ellipsis", None), Token("*?", "name", "v"),
    Token("", "int", 3), Token("#", "int", 3), Token("", "int", 1), Token("", "int", 0),
    Token("", "sym", ("bin", "+", ("name", "a"), ("int", 1))), Token("#", "sym", ("bin", "*", ("name", "a"), ("int", 2))),
    Token("", "sym", ("call", "min", ("name", "a"), ("int", 2))), Token("", "name", "b"),
    Token("", "name", "a", "doc", 0), Token("#", "name", "a", "rows", 1), Token("*", "name", "v", "doc", 0),
    Token("", "int", 4, "cols", 0), Token("##", "name", "a"), Token("**", "name", "v"), Token("__", "name", "a"),
    Token("??", "name", "a"), Token("#_", "name", "a"), Token("_#", "name", "a"), Token("*", "int", 3),
    Token("_", "int", 3), Token("?", "int", 3), Token("*", "sym", ("bin", "+", ("name", "a"), ("int", 1))),
    Token("_", "sym", ("bin", "+", ("name", "a"), ("int", 1))), Token("?", "sym", ("bin", "+", ("name", "a"), ("int", 1))),
    Token("#", "ellipsis", None), Token("*", "ellipsis", None), Token("", "ellipsis", None, "doc", 0), Token("_?", "name", "a"),
]
assert len(REPRESENTATIVE) == 40

# documented illegal spellings that are not expressible as (mods, doc, base) tokens
RAW_ILLEGAL = ["a#", "3#", "a b#", "#", "a,b", "a, b", "a ,b", "3,4", "*v,w", "a... b", "...a", "a...", "... ...", "*v ...", "... *v", "*v *w",
               "a *v b *w", "a+1,b", "a, b min(a,b)", "a, (c)", "2*(c+1) 3,4", "min(a,b) c,d", "(a) b,", "max(a,2) ,"]
RAW_LEGAL = ["min(a,b)", "max(a,2) a", "a  b", " a b ", "\ta\nb\r", "", " ", "...", "a=3", "rows=a cols=b", "_", "_ _", "*_", "b c _ _",
             "... c h w", "#foo", "*batch", "dim-1", "{size}", "{self.some_value}+3"]
NON_STRINGS = [3, None, b"a b", ("a", "b"), 2.5, True, 0, ()]
NON_STRINGS_UNHASHABLE = [["a", "b"], {"a": 1}, {"a"}]


def run(ctx):
    # ---- engine 1: exhaustive single tokens, every 16th shard takes its slice
    toks = list(all_tokens())
    ctx.extra["enumerated_tokens"] = 0
    for i, t in enumerate(toks):
        if i % ctx.nshards != ctx.shard:
            continue
        ctx.extra["enumerated_tokens"] += 1
        try:
            check_spec(ctx, [t])
        except Violation as v:
            ctx.record(v)
            break
    # ordered pairs of representative tokens (legality incl. the single-variadic rule; probes for a slice)
    pairs = list(itertools.product(REPRESENTATIVE, repeat=2))
    for i, (t1, t2) in enumerate(pairs):
        if i % ctx.nshards != ctx.shard:
            continue
        try:
            check_spec(ctx, [t1, t2], probe=(ctx.tier == "thorough" or i % 4 == 0))
        except Violation as v:
            ctx.record(v)
            break
    # raw documented forms and non-strings
    if ctx.shard == 0:
        for raw in RAW_ILLEGAL:
            kind, res = build(raw)
            ctx.note(raw, True, classes=["raw-illegal", f"built-{kind}"])
            if kind != "ValueError":
                ctx.record(Violation("illegal-accepted" if kind == "ok" else "totality", {"raw": raw},
                                     f"documented illegal form {raw!r}: {kind} {res if kind != 'ok' else ''}"))
        for raw in RAW_LEGAL:
            kind, res = build(raw)
            ctx.note(raw, True, classes=["raw-legal", f"built-{kind}"])
            if kind != "ok":
                ctx.record(Violation("legal-rejected" if kind == "ValueError" else "totality", {"raw": raw},
                                     f"documented legal form {raw!r}: {kind} {res}"))
        for ns in NON_STRINGS + NON_STRINGS_UNHASHABLE:
            kind, res = build(ns)
            ctx.note(repr(ns), True, classes=["non-string", f"built-{kind}"])
            if kind != "ValueError":
                ctx.record(Violation("non-string", {"nonstring": repr(ns)},
                                     f"non-string spec {ns!r}: expected ValueError, got {kind} {res if kind != 'ok' else ''}"))

    # ---- engine 2: Hypothesis sequences with whitespace; raw text totality
    anytok = st.builds(
        Token,
        st.lists(st.sampled_from(list(dl.MODS)), max_size=4).map("".join),  # (not st.text: see gen/dims.py whitespace_seps)
        st.sampled_from([b[0] for b in BASES]),
        st.none(),
        st.one_of(st.none(), st.sampled_from(gd.DOCS)),
        st.integers(0, 4),
    )

    def fix(t, data):
        if t.base_kind == "name":
            base = data.draw(st.sampled_from(["a", "b", "v", "foo", "α", "Δt", "größe", "批次"]))  # any Python identifier is an axis name
        elif t.base_kind == "int":
            base = data.draw(st.sampled_from([0, 1, 3, 4, 12]))
        elif t.base_kind == "sym":
            base = data.draw(gd.sym_expr(["a", "b"]))
        else:
            base = None
        return Token(t.mods, t.base_kind, base, t.doc, min(t.docpos, len(t.mods)))

    @given(st.data())
    def sequences(data):
        n = data.draw(st.integers(1, 4))
        legal_bias = data.draw(st.booleans())
        toks = []
        for _ in range(n):
            if legal_bias:
                toks.append(data.draw(gd.legal_token(allow_q=True, sym_names=["a", "b"], names=["a", "b", "foo", "α", "Δt"], vnames=["v", "ñ"])))
            else:
                toks.append(fix(data.draw(anytok), data))
        seps = gd.whitespace_seps(data.draw, len(toks))
        check_spec(ctx, toks, seps)

    ctx.hyp(sequences, max_examples=ctx.n(700, 4000))

    # a comma-separated token is illegal wherever it stands, also next to a (legal) function-call axis with its own comma
    @given(st.data())
    def commas(data):
        toks = data.draw(gd.legal_spec(max_axes=3, bound=["a", "b"], names=["a", "b"], vnames=["v"]))
        pieces = [t.spelling() for t in toks]
        if data.draw(st.booleans()):
            pieces.insert(data.draw(st.integers(0, len(pieces))), data.draw(st.sampled_from(["min(a,b)", "max(a,2)", "(a+1)", "2*(b+1)"])))
        bad = data.draw(st.sampled_from(["a,b", "a,", ",b", "3,4", "a,b,c", "#a,b", "*v,w", "a+1,b"]))
        pieces.insert(data.draw(st.integers(0, len(pieces))), bad)
        spec = " ".join(pieces)
        kind, res = build(spec)
        ctx.note(spec, True, classes=["comma-token", f"built-{kind}"])
        if kind != "ValueError":
            raise Violation("illegal-accepted" if kind == "ok" else "totality", {"raw": spec}, f"spec {spec!r} with the comma-separated token {bad!r}: {kind} {res if kind != 'ok' else '(accepted)'}")

    ctx.hyp(commas, max_examples=ctx.n(200, 2000))

    alphabet = "#*_?=., ()+-{}ab3v0\t\n"

    @given(st.text(alphabet=alphabet, max_size=14))
    def rawtext(s):
        kind, res = build(s)
        ctx.note(s, False, classes=["raw-text", f"built-{kind}"])
        if kind == "other":
            raise Violation("totality", {"raw": s}, f"building Shaped[np.ndarray, {s!r}] raised {res}")

    ctx.hyp(rawtext, max_examples=ctx.n(1500, 20000))

    @given(st.one_of(st.integers(), st.none(), st.binary(max_size=4), st.floats(allow_nan=False), st.booleans(),
                     st.tuples(st.text(max_size=2)), st.lists(st.text(max_size=2), max_size=2),
                     st.frozensets(st.integers(), max_size=2), st.dictionaries(st.text(max_size=1), st.integers(), max_size=1)))
    def nonstrings(x):
        kind, res = build(x)
        ctx.note(repr(x), False, classes=["non-string", f"built-{kind}"])
        if kind != "ValueError":
            raise Violation("non-string", {"nonstring": repr(x)}, f"non-string spec {x!r}: expected ValueError, got {kind} {res if kind != 'ok' else ''}")

    ctx.hyp(nonstrings, max_examples=ctx.n(150, 1500))

    # ---- engine 3: atheris (8 s in the quick tier, 60 s per shard in the thorough tier)
    if not ctx.violations:
        run_atheris(ctx, 8 if ctx.tier == "quick" else 60)


def run_atheris(ctx, seconds):
    """Engine 3: coverage-guided fuzzing of the same decoder/oracle in a subprocess (vf/fuzz_c14.py)."""
    import json
    import os
    import shutil
    import subprocess
    import sys

    from vf.core import VERIF, WORK

    deps = os.path.join(VERIF, ".deps")
    env = dict(os.environ)
    env["PYTHONPATH"] = env.get("PYTHONPATH", "") + os.pathsep + deps
    probe = subprocess.run([sys.executable, "-c", "import atheris"], env=env, capture_output=True)
    if probe.returncode != 0:
        ctx.extra["atheris"] = "not importable (run ./setup.sh); engine 3 skipped"
        return
    corpus = os.path.join(WORK, f"c14-fuzz-{os.getpid()}-{ctx.shard}")
    shutil.rmtree(corpus, ignore_errors=True)
    os.makedirs(corpus, exist_ok=True)
    try:
        r = subprocess.run([sys.executable, "-W", "ignore", "-m", "vf.fuzz_c14", corpus, f"-max_total_time={seconds}", f"-seed={ctx.hyp_seed + 1}",
                            "-print_final_stats=0", f"-artifact_prefix={corpus}/"],
                           env=env, cwd=VERIF, capture_output=True, text=True, timeout=seconds * 4 + 120)
        out = r.stdout + r.stderr
        stats = {}
        try:
            stats = json.load(open(os.path.join(corpus, "stats.json")))
        except Exception:
            pass
        ctx.evaluations += int(stats.get("executions", 0))
        for k, v in stats.items():
            ctx.extra[f"fuzz_{k}"] = ctx.extra.get(f"fuzz_{k}", 0) + v
        ctx.extra["fuzz_corpus_files"] = ctx.extra.get("fuzz_corpus_files", 0) + len(os.listdir(corpus))
        for line in out.splitlines():
            if line.startswith("VF-VIOLATION "):
                v = json.loads(line[len("VF-VIOLATION "):])
                ctx.record(Violation("fuzz-" + v["clause"], {"raw": v["spec"]}, "[atheris] " + v["message"]))
                break
        else:
            if r.returncode != 0 and "Done " not in out:
                from vf.core import HarnessError

                raise HarnessError(f"atheris target failed: {out[-800:]}")
    finally:
        shutil.rmtree(corpus, ignore_errors=True)


def coverage_extra(cov):
    return {"exhaustive_token_layer": True}


def replay(case, clause, ctx):
    try:
        if "raw" in case:
            kind, res = build(case["raw"])
            if kind == "other":
                return f"{case['raw']!r}: {res}"
            if clause == "illegal-accepted" and kind == "ok":
                return f"{case['raw']!r} accepted"
            if clause and clause.startswith("fuzz-"):
                return None  # re-derived by the fuzz run; raw build already checked above for totality
            if clause == "legal-rejected" and kind != "ok":
                return f"{case['raw']!r} rejected: {res}"
            return None
        if "nonstring" in case:
            x = eval(case["nonstring"], {"__builtins__": {}}, {"frozenset": frozenset, "inf": float("inf"), "nan": float("nan")})
            kind, res = build(x)
            return None if kind == "ValueError" else f"non-string spec {x!r}: {kind} {res if kind != 'ok' else ''}"
        from vf.checks.c01 import tok_from_json

        toks = [tok_from_json(j) for j in case["tokens"]]
        check_spec(ctx, toks, case.get("seps"))
    except Violation as v:
        return str(v)
    return None
