"""C13 -- type-check errors are raised iff violated and describe the failure truthfully.

Cases as in C02 (restricted to new-style jaxtyped(typechecker=...)), with parameters optionally turned
into Union[<alternative that binds fresh axes and then fails>, <real annotation>], into structured
PyTrees of arrays, or into annotation misuse (unbound symbolic axis, '?' outside a PyTree, composite
structure over an unbound name).  The reference is the sequential matcher walked in signature order.
Checked on every rejected call: exception class, stage sentence, function name, blamed parameter,
the 'name=value' bindings listed (must equal exactly the bindings made by the checks that passed
before the failure), and __cause__ vs the remove-typechecker-stack switch (toggled after decoration)."""
from __future__ import annotations

import warnings
from typing import Union

import jax.tree_util as jtu
import numpy as np
from hypothesis import given, strategies as st

import jaxtyping
from jaxtyping import AnnotationError, PyTree, Shaped, TypeCheckError, jaxtyped
from vf import obs
from vf.core import Violation
from vf.gen import calls as gc
from vf.gen import dims as gd
from vf.gen import trees as gt
from vf.models import dimlang as dl
from vf.models import pytree as pt
from vf.models.ptcheck import model_pytree_check

ID = "C13"
LEVEL = "exploration"
SHARDS = {"quick": 4, "thorough": 16}
RULE = (
    "Call cases generated as in C02 (1..5 parameters, optional return annotation, focused variadic/broadcast modes), each "
    "parameter turned with probability ~1/4 into a Union whose first alternative binds fresh axes and then fails, ~1/5 into "
    "PyTree[array,'T'|'S'|none] over 1..3 array leaves (a third of them with such a Union as leaf type), an extra parameter annotated with a class created afresh per function in a third of the cases, ~1/12 into an annotation misuse; executed with typeguard and beartype, "
    "positional/keyword calls, remove-typechecker-stack on/off (set after decoration). Non-trivial = rejected call where the "
    "failing check had bound >=1 name before failing, or an earlier Union alternative had been rolled back, or the failure is "
    "at the return value after >=1 binding; distinct by (annotations, values, flag)."
)
ASSUMPTIONS = [
    "typeguard 2.13.3 and beartype 0.22.9 visit parameters in signature order; Union alternatives other than the real one can never match (fixed size 99)",
    "reference matcher vf/models/dimlang.py + vf/models/ptcheck.py; messages parsed by vf/obs.parse_bindings",
]

FNAMES = ["fn", "compute", "T0", "ret0"]


def entry_annotation(e):
    if e["kind"] == "array":
        return Shaped[np.ndarray, gc.spec_of(e)]
    if e["kind"] == "union":
        alt1 = dl.spec_spelling([gc.tok_from_json(j) for j in e["alt1"]])
        return Union[Shaped[np.ndarray, alt1], Shaped[np.ndarray, gc.spec_of(e)]]
    if e["kind"] == "pytree":
        leaf = Shaped[np.ndarray, gc.spec_of(e)]
        if e.get("alt1"):
            # leaf type is a Union whose first alternative binds fresh axes and then fails on every leaf
            alt1 = dl.spec_spelling([gc.tok_from_json(j) for j in e["alt1"]])
            leaf = Union[Shaped[np.ndarray, alt1], leaf]
        return PyTree[leaf, e["structure"]] if e.get("structure") else PyTree[leaf]
    if e["kind"] == "unrepr":
        return Unprintable
    if e["kind"] == "fickle":
        return Fickle
    if e["kind"] == "cfg":
        # a class created afresh for every decorated function, always under the same name: annotations that print
        # alike but are different objects
        return type("Cfg", (), {})
    raise AssertionError(e)


class _FickleMeta(type):
    """isinstance() answers False the first time it is asked after reset(), True from then on: the full check of a call reports a
    violation that the one-parameter-at-a-time re-check (used to name the culprit) cannot reproduce."""

    asked = 0

    def __instancecheck__(cls, obj):
        _FickleMeta.asked += 1
        return _FickleMeta.asked > 1


class Fickle(metaclass=_FickleMeta):
    pass


class Unprintable:
    """A well-typed bystander argument whose repr() raises (a closed handle, a half-initialised object): the error
    message has to be produced all the same."""

    def __repr__(self):
        raise RuntimeError("this object cannot be printed")


def entry_value(e, ns=None):
    if e["kind"] == "unrepr":
        return Unprintable()
    if e["kind"] == "fickle":
        return object()
    if e["kind"] == "cfg":
        return ns[f"A_{e['name']}"]()
    npint = bool(ns and ns.get("__npint"))
    if e["kind"] == "pytree":
        return pt.build(gt.from_json(e["tree"]), lambda p: gc.make_array(p, npint))
    return gc.make_array(e["shape"], npint)


def entry_model(e, m):
    """-> (allowed, new ctx, tentative, new_struct_name)"""
    if e["kind"] in ("cfg", "unrepr", "fickle"):
        return {dl.TRUE}, m, 0, None
    ms = gc.meanings_of(e)
    if e["kind"] in ("array", "union"):
        o = dl.match(ms, e["shape"], m)
        return set(o.allowed), (o.ctx if o.ctx is not None else m), o.tentative, None
    return model_pytree_check(m, ms, e.get("structure"), gt.from_json(e["tree"]))


def kept(case):
    """number of leading parameters the call passes (the last `omit` of the `ndefaults` defaulted trailing parameters are left out)"""
    n = len(case["params"])
    return n - min(case.get("omit", 0), case.get("ndefaults", 0), n)


def walk(case):
    """Sequential reference walk.  -> dict(stage, index, allowed, bindings(ctx before failure), structs, tentative, rolled_back_union)"""
    m = dl.MCtx()
    import types as _types

    # (f-string axes such as '{x.shape[0]}' are evaluated over the call's arguments)
    m.args = {p["name"]: _types.SimpleNamespace(shape=tuple(p["shape"])) for p in case["params"] if p["kind"] in ("array", "union")}
    struct_strs = {}
    rolled = False
    # arguments left to their defaults are neither checked nor bound (typecheckers do not check default values)
    keep = kept(case)
    seq = [("param", i, p) for i, p in enumerate(case["params"]) if i < keep]
    if case["ret"] is not None:
        seq.append(("return", None, case["ret"]))
    for stage, i, e in seq:
        allowed, newm, tent, new_struct = entry_model(e, m)
        if allowed == {dl.TRUE}:
            if new_struct:
                struct_strs[new_struct] = str(jtu.tree_structure(entry_value(e)))
            if e["kind"] == "union":
                rolled = True
            m = newm
            continue
        if dl.TRUE in allowed:
            return {"stage": "unspecified"}
        return {"stage": stage, "index": i, "allowed": allowed, "m": m, "structs": struct_strs, "tentative": tent, "rolled": rolled}
    return {"stage": "ok", "m": m, "structs": struct_strs}


def build(case, ck, fname):
    ns = {"__ret": [None], "__calls": [], "__name__": "vf_generated", "__npint": bool(case.get("npint_shapes"))}
    parts = []
    n = len(case["params"])
    for i, p in enumerate(case["params"]):
        ns[f"A_{p['name']}"] = entry_annotation(p)
        if i >= n - case.get("ndefaults", 0):
            # trailing parameters with a (well-typed) default: the call may leave them out
            parts.append(f"{p['name']}: A_{p['name']} = __D_{p['name']}")
        else:
            parts.append(f"{p['name']}: A_{p['name']}")
    retstr = ""
    if case["ret"] is not None:
        ns["A_ret"] = entry_annotation(case["ret"])
        retstr = " -> A_ret"
    src = f"{'async ' if case.get('is_async') else ''}def {fname}({', '.join(parts)}){retstr}:\n    __calls.append(1)\n    return __ret[0]\n"
    for p in case["params"]:
        ns[f"__D_{p['name']}"] = entry_value(p, ns)
    gc.exec_source(src, "<vf-generated>", ns)
    with warnings.catch_warnings():
        warnings.simplefilter("ignore")
        fn = jaxtyped(typechecker=gc.checker(ck))(ns[fname])
    return fn, ns


def check_case(ctx, case):
    obs.reset_state()
    w = walk(case)
    if w["stage"] == "unspecified":
        ctx.classes["skipped-unspecified"] += 1
        return
    is_async = bool(case.get("is_async"))
    if is_async and w["stage"] == "return":
        # a coroutine function: its parameters are checked when it is called; whether the awaited value is checked against the return
        # annotation is not claimed either way
        ctx.classes["skipped-async-return-violation"] += 1
        return
    desc = {"params": [(p["name"], p["kind"], gc.spec_of(p) if p["kind"] not in ("cfg", "unrepr", "fickle") else p["kind"], p.get("structure"), p.get("shape", p.get("tree"))) for p in case["params"]],
            "ret": (gc.spec_of(case["ret"]), case["ret"]["shape"]) if case["ret"] else None, "flag": case["flag"],
            "defaults": [case.get("ndefaults", 0), case.get("omit", 0)], "async": bool(case.get("is_async")), "sizes_reported_as_numpy_integers": bool(case.get("npint_shapes"))}
    keep_n = kept(case)
    fickle = any(p["kind"] == "fickle" for p in case["params"][:keep_n])  # (an omitted, defaulted parameter is never looked at)
    for ck in ("typeguard", "beartype"):
        fn, ns = build(case, ck, case["fname"])
        ns["__ret"][0] = entry_value(case["ret"], ns) if case["ret"] else None
        for style in ("pos", "kw"):
            vals = [entry_value(p, ns) for p in case["params"]]
            keep = kept(case)  # the last `omit` (defaulted) arguments are not passed
            args, kwargs = (vals[:keep], {}) if style == "pos" else ([], {p["name"]: v for p, v in list(zip(case["params"], vals))[:keep]})
            jaxtyping.config.update("jaxtyping_remove_typechecker_stack", case["flag"])
            _FickleMeta.asked = 0
            try:
                try:
                    r = fn(*args, **kwargs)
                    if is_async:
                        # awaited to completion by hand (the body never suspends)
                        try:
                            r.send(None)
                        except StopIteration:
                            pass
                    exc = None
                except BaseException as e:  # noqa: BLE001
                    exc = e
            finally:
                jaxtyping.config.update("jaxtyping_remove_typechecker_stack", False)
            where = f"[{ck}/{style}] {desc}"
            ncalls = len(ns["__calls"])
            ns["__calls"].clear()
            if fickle:
                # the typechecker rejected the call (its first look at the fickle parameter said no): the call must be rejected
                # and the body must not run, even though no single parameter can be named afterwards
                if not isinstance(exc, (TypeCheckError, AnnotationError)):  # (an annotation misuse elsewhere in the signature may surface instead)
                    raise Violation("not-raised", dict(case, variant=[ck, style]),
                                    f"the typechecker rejected the arguments (a parameter's isinstance answered False once), but the call {'returned' if exc is None else 'raised ' + type(exc).__name__} {where}")
                if ncalls != 0:
                    raise Violation("body-ran", dict(case, variant=[ck, style]), f"body ran although the typechecker rejected the arguments {where}")
                continue
            if w["stage"] == "ok":
                if exc is not None:
                    raise Violation("raised-on-well-typed", dict(case, variant=[ck, style]), f"well-typed call raised {type(exc).__name__}: {str(exc)[:300]} {where}")
                continue
            if exc is None:
                raise Violation("not-raised", dict(case, variant=[ck, style]), f"ill-typed call (first failure: {w['stage']} {w['index']}) was accepted {where}")
            allowed = w["allowed"]
            if isinstance(exc, AnnotationError):
                if dl.ANNERR not in allowed:
                    raise Violation("annotationerror-unexpected", dict(case, variant=[ck, style]), f"AnnotationError raised but the failure is an ordinary mismatch: {str(exc)[:200]} {where}")
                continue
            if not isinstance(exc, TypeCheckError):
                raise Violation("error-class", dict(case, variant=[ck, style]), f"raised {type(exc).__name__}: {str(exc)[:300]} instead of TypeCheckError/AnnotationError {where}")
            if allowed == {dl.ANNERR}:
                raise Violation("misuse-swallowed", dict(case, variant=[ck, style]), f"annotation misuse surfaced as TypeCheckError instead of AnnotationError: {str(exc)[:300]} {where}")
            if not isinstance(exc, TypeError):
                raise Violation("error-class", dict(case, variant=[ck, style]), "TypeCheckError is not a TypeError")
            msg = str(exc)
            # stage sentence + function name
            qual = f"vf_generated.{case['fname']}"
            if w["stage"] == "param":
                want = f"Type-check error whilst checking the parameters of {qual}."
                if ncalls != 0:
                    raise Violation("body-ran", dict(case, variant=[ck, style]), f"body ran although a parameter is ill-typed {where}")
            else:
                want = f"Type-check error whilst checking the return value of {qual}."
            if not msg.startswith(want):
                raise Violation("stage-sentence", dict(case, variant=[ck, style]), f"message starts {msg[:120]!r}, expected {want!r} {where}")
            if w["stage"] == "param":
                pname = case["params"][w["index"]]["name"]
                line = f"The problem arose whilst typechecking parameter '{pname}'."
                if line not in msg:
                    got = [l for l in msg.split("\n") if l.startswith("The problem arose")]
                    raise Violation("blamed-parameter", dict(case, variant=[ck, style]), f"expected {line!r}, message has {got} {where}")
            axes, structs = obs.parse_bindings(msg)
            exp_axes = w["m"].bindings()
            if axes != exp_axes:
                raise Violation("bindings-listed", dict(case, variant=[ck, style]),
                                f"message lists axes {axes}, bindings in force at the failure are {exp_axes} (failure at {w['stage']} {w['index']}) {where}")
            if structs != w["structs"]:
                raise Violation("structures-listed", dict(case, variant=[ck, style]), f"message lists structures {structs}, in force: {w['structs']} {where}")
            # the error can cross a process boundary (multiprocessing / concurrent.futures workers report it by pickling it)
            try:
                import pickle

                back = pickle.loads(pickle.dumps(exc))
            except BaseException as e:  # noqa: BLE001
                raise Violation("error-pickle", dict(case, variant=[ck, style]), f"the TypeCheckError cannot be pickled: {type(e).__name__}: {e} {where}")
            if type(back) is not type(exc) or str(back) != msg:
                raise Violation("error-pickle", dict(case, variant=[ck, style]), f"the TypeCheckError changed when pickled: {type(back).__name__} {str(back)[:120]!r} {where}")
            if (exc.__cause__ is None) != bool(case["flag"]):
                raise Violation("cause-vs-switch", dict(case, variant=[ck, style]),
                                f"remove_typechecker_stack={case['flag']} but __cause__ is {'None' if exc.__cause__ is None else type(exc.__cause__).__name__} {where}")
    rejected = w["stage"] in ("param", "return")
    nontrivial = rejected and (w.get("tentative", 0) >= 1 or w.get("rolled") or (w["stage"] == "return" and bool(w["m"].bindings())))
    ctx.note([desc], nontrivial,
             classes=(["unpinnable-violation"] if fickle else []) + (["f-string-axis-over-earlier-argument"] if case.get("fstring_axis") else []) + (["coroutine-function"] if is_async else []) + (["defaulted-arguments-omitted"] if min(case.get("omit", 0), case.get("ndefaults", 0)) else []) + [f"stage-{w['stage']}", f"flag-{case['flag']}"] + ([f"allowed-{'+'.join(sorted(w['allowed']))}", f"fail-index-{w['index']}"] if rejected else [])
             + (["union-rolled-back-before"] if w.get("rolled") else []) + ([f"tentative-{min(w.get('tentative', 0), 3)}"] if rejected else []),
             sample=dict(desc, first_failure=[w["stage"], w.get("index")], bindings_in_force=w["m"].bindings() if "m" in w else None))


@st.composite
def c13_case(draw):
    case = draw(gc.call_case(max_params=4))
    m = dl.MCtx()
    for e in case["params"] + ([case["ret"]] if case["ret"] else []):
        e["kind"] = "array"
    for e in list(case["params"]):
        r = draw(st.integers(0, 11))
        ms = gc.meanings_of(e)
        if r <= 2 and len(e["shape"]) >= 1:
            # first alternative: fresh names for every axis but the last, which is the impossible size 99
            n = len(e["shape"])
            alt = [dl.Token("", "name", f"q{i}") for i in range(n - 1)] + [dl.Token("", "int", 99)]
            real = [gc.tok_from_json(j) for j in e["tokens"]]
            borrow = [t for t in real[1:] if t.base_kind == "name" and t.mods == "" and t.doc is None]
            if n >= 2 and borrow and draw(st.integers(0, 1)) == 0:
                # ... or the failing alternative first binds, at another position, a name the right alternative uses too: whatever it
                # bound is gone once it has failed
                alt[0] = dl.Token("", "name", borrow[-1].base)
            e["kind"] = "union"
            e["alt1"] = [gc.tok_json(t) for t in alt]
        elif r <= 4:
            nl = draw(st.integers(1, 3))
            shapes = [list(e["shape"]) for _ in range(nl)]
            if nl > 1 and draw(st.integers(0, 2)) == 0 and shapes[-1]:
                pos = draw(st.integers(0, len(shapes[-1]) - 1))
                shapes[-1][pos] = draw(st.sampled_from([s for s in gd.SIZES if s != shapes[-1][pos]]))
            d = draw(st.sampled_from([("tuple", [("leaf", 0)] * nl), ("list", [("leaf", 0)] * nl), ("dict", list(zip(["k", "a", "z"], [("leaf", 0)] * nl)))]))
            e["kind"] = "pytree"
            e["structure"] = draw(st.sampled_from(["T", "T", "S", None]))
            e["tree"] = gt.to_json(gt.relabel(d, iter(shapes)))
            if shapes[0] and draw(st.integers(0, 2)) == 0:
                n0 = len(shapes[0])
                e["alt1"] = [gc.tok_json(t) for t in [dl.Token("", "name", f"q{i}") for i in range(n0 - 1)] + [dl.Token("", "int", 99)]]
            del e["shape"]
        elif r == 5:
            # misuse
            mk = draw(st.sampled_from(["sym", "q", "composite", "hole"]))
            if mk == "sym":
                e["tokens"] = [gc.tok_json(dl.Token("", "sym", ("bin", "+", ("name", "zz"), ("int", 1))))] + e["tokens"][: max(0, len(e["shape"]) - 1)]
                e["shape"] = e["shape"][: len(e["tokens"])] if len(e["shape"]) >= len(e["tokens"]) else e["shape"] + [2] * (len(e["tokens"]) - len(e["shape"]))
            elif mk == "q":
                e["tokens"] = [gc.tok_json(dl.Token("?", "name", "a"))]
                e["shape"] = [3]
            elif mk == "hole":
                # an f-string axis that names something which is not an argument of the function: annotation misuse as well
                e["tokens"] = [gc.tok_json(dl.Token("", "sym", draw(st.sampled_from([("hole", "vf_no_such_argument"), ("bin", "+", ("hole", "vf_no_such_argument"), ("int", 1))]))))]
                e["shape"] = [3]
            else:
                e["kind"] = "pytree"
                e["structure"] = "S Zunbound"
                e["tree"] = gt.to_json(("tuple", [("leaf", list(e["shape"]))]))
                del e["shape"]
    if draw(st.integers(0, 2)) == 0:
        pos = draw(st.integers(0, len(case["params"])))
        case["params"].insert(pos, {"name": "cfg", "kind": "cfg", "tokens": []})
    if draw(st.integers(0, 3)) == 0:
        pos = draw(st.integers(0, len(case["params"])))
        case["params"].insert(pos, {"name": "handle", "kind": "unrepr", "tokens": []})
    if draw(st.integers(0, 9)) == 0:
        pos = draw(st.integers(0, len(case["params"])))
        case["params"].insert(pos, {"name": "fk", "kind": "fickle", "tokens": []})
    case["ndefaults"] = draw(st.sampled_from([0, 1, 2, 0, 3]))
    case["omit"] = draw(st.sampled_from([1, 2, 0, 3]))
    case["flag"] = draw(st.sampled_from([True, False]))
    case["fname"] = draw(st.sampled_from(FNAMES))
    case["is_async"] = draw(st.sampled_from([False, True, False, False]))
    case["npint_shapes"] = draw(st.sampled_from([False, True, False]))
    if min(case["omit"], case["ndefaults"]) == 0 and draw(st.integers(0, 2)) == 0:
        # an f-string axis over an earlier array argument on a (well-typed) later parameter: '{x.shape[0]} ...'
        arrs = [i for i, p in enumerate(case["params"]) if p["kind"] == "array"]
        if len(arrs) >= 2 and case["params"][arrs[0]]["shape"]:
            p0, pj = case["params"][arrs[0]], case["params"][arrs[draw(st.integers(1, len(arrs) - 1))]]
            pj["tokens"] = [gc.tok_json(dl.Token("", "sym", ("holeidx", p0["name"], "shape", 0)))] + pj["tokens"]
            pj["shape"] = [p0["shape"][0]] + list(pj["shape"])
            case["fstring_axis"] = True
    return case


def run(ctx):
    @given(c13_case())
    def cases(case):
        check_case(ctx, case)

    ctx.hyp(cases, max_examples=ctx.n(500, 2500))


def replay(case, clause, ctx):
    case = dict(case)
    case.pop("variant", None)
    try:
        check_case(ctx, case)
    except Violation as v:
        return str(v)
    return None
