"""C20 -- annotations survive pickling and copying with their meaning intact.

Annotations from the constructor space (34 categories + importable user categories x array types
{ndarray, Any, jax.Array, duck class, unions, nested annotations} x specs with '_', '...', '*name', '#',
symbolic axes) are sent through pickle protocols 0-5, cloudpickle, copy and deepcopy, in the same
process and into a fresh subprocess.  Oracle: the acceptance vector (verdict incl. AnnotationError over
a probe set of dtypes x shapes x non-arrays, in a fresh context and under a prior context) of the
reconstruction equals the original's, and the original's vector is unchanged after dumping/loading."""
from __future__ import annotations

import base64
import copy
import json
import os
import pickle
import subprocess
import sys
import typing
from typing import Any, Union

import numpy as np
from hypothesis import given, strategies as st

import itertools

import jaxtyping
from jaxtyping import AbstractArray, Shaped, jaxtyped
from vf import obs, usercats
from vf.core import HarnessError, Violation
from vf.gen import dims as gd
from vf.models import dimlang as dl
from vf.models import dtypes as dt

ID = "C20"
LEVEL = "exploration"
SHARDS = {"quick": 4, "thorough": 16}
RULE = (
    "Hypothesis draws annotations: category in 34 exported + 3 importable user categories; array type in {np.ndarray, Any, jax.Array, "
    "duck class, Union of two of them, a nested annotation (inner category x inner spec)}; spec of 0..4 constructed legal tokens incl. "
    "'_', '...', '*name', bare '*', '#', symbolic. Routes: pickle protocol 0..5, cloudpickle, copy, deepcopy in-process; pickle and cloudpickle "
    "payloads are additionally loaded and evaluated in one fresh subprocess per shard. Probe set: 9 dtypes x 9 shapes on ndarray + duck + "
    "jax arrays + 4 non-arrays, each in a fresh context and after a prior binding, plus 7 shape pairs x 2 dtypes checked one after the other in one context (binding behaviour). Non-trivial = nested annotation whose effective dtypes "
    "differ from the outer category, or a spec with '_' / '...' (identity-compared sentinels), or a cross-process route; distinct by "
    "(annotation, route)."
)
ASSUMPTIONS = [
    "user categories are module-level classes of vf/usercats.py (importable by name, as the statement requires)",
    "annotations whose construction raises (empty dtype intersection, two variadics) are skipped and counted",
]

CATS = list(dt.CATEGORIES)
USER = ["UInt8or16", "FloatRe", "Mixed", "Encoder.Dt", "Decoder.Dt"]
PROBE_DTYPES = ["bool", "int8", "uint8", "uint16", "int32", "float16", "float32", "float64", "complex64"]
PROBE_SHAPES = [(), (1,), (3,), (4,), (3, 4), (1, 4), (3, 1), (2, 3, 4), (3, 3)]
PAIR_SHAPES = [((3,), (4,)), ((3, 4), (3, 5)), ((2, 3), (4, 3)), ((1, 4), (2, 4)), ((3, 4), (2, 3, 4)), ((2, 2), (3, 3)), ((3, 4), (3, 4))]
ROUTES = ["pickle0", "pickle1", "pickle2", "pickle3", "pickle4", "pickle5", "cloudpickle", "copy", "deepcopy", "cloudpickle0", "cloudpickle1", "cloudpickle2"]


def cat_obj(name):
    if name in USER:
        import functools

        return functools.reduce(getattr, name.split("."), usercats)
    return getattr(jaxtyping, name)


def array_type_obj(at):
    import jax

    k = at[0]
    if k == "np":
        return np.ndarray
    if k == "any":
        return Any
    if k == "jax":
        return jax.Array
    if k == "duck":
        return usercats.DuckArr
    if k == "duckq":
        return usercats.Backend.Tensor
    if k == "union":
        return Union[array_type_obj(at[1]), array_type_obj(at[2])]
    if k == "nested":
        return cat_obj(at[1])[array_type_obj(at[3]), at[2]]
    raise AssertionError(at)


def build(desc):
    return cat_obj(desc["cat"])[array_type_obj(desc["at"]), desc["spec"]]


def members(ann):
    if typing.get_origin(ann) is Union:
        return list(typing.get_args(ann))
    return [ann]


_probes = None


def probes():
    global _probes
    if _probes is None:
        import jax.numpy as jnp

        out = []
        for d in PROBE_DTYPES:
            for s in PROBE_SHAPES:
                out.append(np.zeros(s, dtype=d))
        for d in ("float32", "int8", "uint16"):
            for s in ((3,), (3, 4), ()):
                out.append(usercats.DuckArr(s, d))
                out.append(usercats.Backend.Tensor(s, d))
                out.append(jnp.zeros(s, dtype=d))
        out += [None, 3, "s", (1, 2)]
        _probes = out
    return _probes


def vector(ann):
    ms = members(ann)
    out = []
    for prior in (False, True):
        for v in probes():
            with jaxtyped("context"):
                if prior:
                    isinstance(np.zeros((3,)), Shaped[np.ndarray, "a"])
                    isinstance(np.zeros((1, 4)), Shaped[np.ndarray, "*v"])
                res = []
                for a in ms:
                    res.append(obs.verdict(v, a))
                out.append("|".join(res))
    # binding behaviour: two checks in one context -- the second verdict depends on what the first one bound
    for s1, s2 in PAIR_SHAPES:
        for d in ("float32", "int8"):
            with jaxtyped("context"):
                res = []
                for a in ms:
                    res.append(obs.verdict(np.zeros(s1, dtype=d), a) + ">" + obs.verdict(np.zeros(s2, dtype=d), a))
                out.append("|".join(res))
    return out


def probe_label(i):
    n = len(probes())
    if i < 2 * n:
        return f"probe #{i % n} ({'prior' if i >= n else 'fresh'} context, {probe_repr(i % n)})"
    j = i - 2 * n
    s1, s2 = PAIR_SHAPES[j // 2]
    return f"pair probe: ndarray {s1} then ndarray {s2} in one context, dtype {('float32', 'int8')[j % 2]}"


def roundtrip(ann, route):
    if route.startswith("pickle"):
        return pickle.loads(pickle.dumps(ann, protocol=int(route[6:])))
    if route.startswith("cloudpickle"):
        import cloudpickle

        return cloudpickle.loads(cloudpickle.dumps(ann, protocol=int(route[11:])) if route[11:] else cloudpickle.dumps(ann))
    if route == "copy":
        return copy.copy(ann)
    return copy.deepcopy(ann)


def describe(desc):
    return f"{desc['cat']}[{desc['at']}, {desc['spec']!r}]"


def check_case(ctx, desc, routes, cross=None):
    obs.reset_state()
    try:
        ann = build(desc)
    except ValueError:
        ctx.classes["skipped-unbuildable"] += 1
        return
    nested = desc["at"][0] == "nested"
    narrowed = False
    if nested:
        outer, inner = dt.TABLE.get(desc["cat"]), dt.TABLE.get(desc["at"][1])
        narrowed = desc["cat"] in dt.TABLE and desc["at"][1] in dt.TABLE and dt.intersect(desc["cat"], desc["at"][1]) != outer
    sentinel = any(t in desc["spec"].split() or t.startswith("_") for t in desc["spec"].split() for t in [t]) and ("_" in desc["spec"] or "..." in desc["spec"])
    v0 = vector(ann)
    if desc.get("twin_generator"):
        # elsewhere in the process an identically spelled annotation (a class of its own) is the return annotation of a generator
        # function decorated the old way -- whatever jaxtyping does to that class concerns neither `ann` nor its copies
        import warnings

        twin = build(desc)

        def _gen():
            yield None

        _gen.__annotations__ = {"return": twin}
        with warnings.catch_warnings():
            warnings.simplefilter("ignore")
            try:
                jaxtyped(typechecker=None)(_gen)
            except Exception:
                pass
        ctx.classes["identically-spelled-twin-on-old-style-generator"] += 1
    for route in routes:
        try:
            back = roundtrip(ann, route)
        except BaseException as e:  # noqa: BLE001
            raise Violation("roundtrip-raised", dict(desc, route=route), f"{route} of {describe(desc)} raised {type(e).__name__}: {e}")
        try:
            v1 = vector(back)
        except BaseException as e:  # noqa: BLE001
            raise HarnessError(f"vector of reconstructed failed: {e!r}")
        v0b = vector(ann)
        if v0b != v0:
            i = next(i for i, (x, y) in enumerate(zip(v0, v0b)) if x != y)
            raise Violation("original-changed", dict(desc, route=route),
                            f"after {route}, the ORIGINAL {describe(desc)} answers differently on {probe_label(i)}: {v0[i]} -> {v0b[i]}")
        if v1 != v0:
            i = next(i for i, (x, y) in enumerate(zip(v0, v1)) if x != y)
            n = len(probes())
            raise Violation("meaning-changed", dict(desc, route=route),
                            f"{route}: reconstructed {describe(desc)} differs on {probe_label(i)}: original {v0[i]}, reconstructed {v1[i]}")
        if desc.get("loaded_on_generator") and route.startswith("pickle"):
            # the loaded copy is put to use as the return annotation of an old-style generator function; loading the same bytes once more
            # gives an annotation of its own that means what the original means
            import warnings

            def _gen2():
                yield None

            _gen2.__annotations__ = {"return": back}
            with warnings.catch_warnings():
                warnings.simplefilter("ignore")
                try:
                    jaxtyped(typechecker=None)(_gen2)
                except Exception:
                    pass
            try:
                v2 = vector(roundtrip(ann, route))
            except BaseException as e:  # noqa: BLE001
                raise Violation("roundtrip-raised", dict(desc, route=route), f"second {route} of {describe(desc)} raised {type(e).__name__}: {e}")
            if v2 != v0:
                i = next(i for i, (x, y) in enumerate(zip(v0, v2)) if x != y)
                raise Violation("meaning-changed", dict(desc, route=route),
                                f"{route}, loaded a second time after the first loaded copy had become the return annotation of an old-style generator function: reconstructed {describe(desc)} differs on {probe_label(i)}: original {v0[i]}, reconstructed {v2[i]}")
            ctx.classes["loaded-twice-with-first-copy-on-a-generator"] += 1
        ctx.note([desc, route], narrowed or sentinel, classes=[f"route-{route}", f"at-{desc['at'][0]}"] + (["narrowed-nested"] if narrowed else []) + (["sentinel-axis"] if sentinel else []),
                 sample={"annotation": describe(desc), "route": route})
    if cross is not None:
        import cloudpickle

        for route, dump in (("x-pickle", pickle.dumps), ("x-cloudpickle", cloudpickle.dumps)):
            try:
                payload = dump(ann)
            except BaseException as e:  # noqa: BLE001
                raise Violation("roundtrip-raised", dict(desc, route=route), f"dumping {describe(desc)} for {route} raised {type(e).__name__}: {e}")
            cross.append({"desc": desc, "route": route, "payload": base64.b64encode(payload).decode(), "vector": v0})


_stale_counter = [0]


def check_stale_payload(ctx, case):
    import collections.abc
    import warnings

    import cloudpickle
    import typeguard

    _stale_counter[0] += 1
    spec = f"vfstale{_stale_counter[0]}x{ctx.shard} " + case["spec"]
    try:
        if case.get("disabled_at_creation"):
            # the annotation is created while the run-time switch is off (e.g. a module imported under JAXTYPING_DISABLE) and used --
            # dumped, loaded, checked against -- after checking was switched on again
            jaxtyping.config.update("jaxtyping_disable", True)
        try:
            ann = cat_obj(case["cat"])[np.ndarray, spec]
        finally:
            jaxtyping.config.update("jaxtyping_disable", False)
    except ValueError:
        return
    dumps, loads = (cloudpickle.dumps, cloudpickle.loads) if case["route"] == "cloudpickle" else ((lambda a: pickle.dumps(a, protocol=int(case["route"][6:]))), pickle.loads)
    blob = dumps(ann)
    if case["use_between"]:
        def gen():
            yield np.zeros((3,))

        gen.__annotations__ = {"return": collections.abc.Iterator[ann]}
        with warnings.catch_warnings():
            warnings.simplefilter("ignore")
            jaxtyping.jaxtyped(typeguard.typechecked(gen))
    before = vector(ann)
    back = loads(blob)
    after = vector(ann)
    ctx.note(["stale", case["cat"], case["spec"], case["route"], case["use_between"]], case["use_between"], classes=["stale-payload", f"route-{case['route']}"] + (["created-while-disabled"] if case.get("disabled_at_creation") else []),
             sample={"annotation": f"{case['cat']}[ndarray, {spec!r}]", "route": case["route"], "used_between_dump_and_load": case["use_between"]})
    if before != after:
        i = next(i for i, (x, y) in enumerate(zip(before, after)) if x != y)
        raise Violation("original-changed", dict(case, stale=True),
                        f"loading a {case['route']} payload of {case['cat']}[ndarray, {spec!r}] dumped earlier changed what the ORIGINAL accepts "
                        f"({probe_label(i)}: {before[i]} -> {after[i]}); used as a generator's return annotation in between: {case['use_between']}")
    # (after the use in between the original is in the state described by the known finding of C12: only compared otherwise)
    if not case["use_between"] and vector(back) != after:
        raise Violation("meaning-changed", dict(case, stale=True), f"{case['route']} payload of {case['cat']}[ndarray, {spec!r}] loaded later differs from the original"
                                                                     + (" (the original was created while jaxtyping_disable was on; both are used with checking on)" if case.get("disabled_at_creation") else ""))


def probe_repr(i):
    v = probes()[i]
    if hasattr(v, "shape"):
        return f"{type(v).__name__} shape={tuple(v.shape)} dtype={v.dtype}"
    return repr(v)


CHILD = r'''
import base64, json, pickle, sys
sys.path.insert(0, sys.argv[2])
import cloudpickle
from vf.checks import c20
items = json.load(open(sys.argv[1]))
out = []
for it in items:
    try:
        ann = (cloudpickle if it["route"] == "x-cloudpickle" else pickle).loads(base64.b64decode(it["payload"]))
        out.append({"vector": c20.vector(ann)})
    except BaseException as e:
        out.append({"error": f"{type(e).__name__}: {e}"})
json.dump(out, open(sys.argv[1] + ".out", "w"))
'''


def run_cross(ctx, cross):
    if not cross:
        return
    from vf.core import VERIF, WORK

    os.makedirs(WORK, exist_ok=True)
    path = os.path.join(WORK, f"c20-cross-{os.getpid()}.json")
    with open(path, "w") as f:
        json.dump([{"route": c["route"], "payload": c["payload"]} for c in cross], f)
    try:
        r = subprocess.run([sys.executable, "-W", "ignore", "-c", CHILD, path, VERIF], capture_output=True, text=True, timeout=1200)
        if r.returncode != 0 or not os.path.exists(path + ".out"):
            raise HarnessError(f"cross-process child failed: {r.stderr[-1500:]}")
        res = json.load(open(path + ".out"))
    finally:
        for p in (path, path + ".out"):
            if os.path.exists(p):
                os.remove(p)
    n = len(probes())
    for c, r_ in zip(cross, res):
        ctx.note([c["desc"], c["route"]], True, classes=[f"route-{c['route']}"], sample={"annotation": describe(c["desc"]), "route": c["route"]})
        if "error" in r_:
            ctx.record(Violation("cross-load-raised", dict(c["desc"], route=c["route"]), f"{c['route']}: loading/evaluating {describe(c['desc'])} in a fresh process raised {r_['error']}"))
            return
        if r_["vector"] != c["vector"]:
            i = next(i for i, (x, y) in enumerate(zip(c["vector"], r_["vector"])) if x != y)
            ctx.record(Violation("meaning-changed", dict(c["desc"], route=c["route"]),
                                 f"{c['route']}: {describe(c['desc'])} loaded in a fresh process differs on {probe_label(i)}: original {c['vector'][i]}, loaded {r_['vector'][i]}"))
            return


@st.composite
def array_type_desc(draw, depth=0):
    k = draw(st.sampled_from(["np", "np", "nested", "any", "jax", "duck", "union", "nested", "duckq"] if depth == 0 else (["np", "nested", "any", "jax", "duck", "duckq"] if depth == 1 else ["np", "any", "jax", "duck"])))
    if k == "union":
        a, b = draw(st.permutations(["np", "jax", "duck"]))[:2]
        return ["union", [a], [b]]
    if k == "nested":
        toks = draw(gd.legal_spec(max_axes=2, names=["a", "b"], vnames=["v"], multi_prob=0.3)) if draw(st.integers(0, 3)) else []  # (an empty level, too)
        # (categories declared with compiled regexes are drawn more often: their matching takes another path than plain names)
        return ["nested", draw(st.sampled_from(CATS + USER + ["FloatRe", "Mixed"] * 4)), dl.spec_spelling(toks), draw(array_type_desc(depth=depth + 1))]
    return [k]


WIDE = ["Shaped", "Num", "Inexact", "Real", "Integer", "Shaped"]
NARROW = {"Shaped": ["Float", "Int", "Float32", "Bool", "Num", "UInt8or16", "FloatRe"], "Num": ["Float", "Int8", "Integer", "Complex"], "Inexact": ["Float", "Complex64", "Float16"],
          "Real": ["Float", "UInt", "Int32"], "Integer": ["UInt", "Int", "UInt8"]}


@st.composite
def nested_focus(draw):
    """Nested annotation whose effective dtypes are narrower than the outer category, with the multi-axis token
    (if any) in exactly one of the two specs."""
    outer = draw(st.sampled_from(WIDE))
    inner = draw(st.sampled_from(NARROW[outer]))
    where = draw(st.sampled_from(["inner", "outer", "none", "inner"]))
    t_in = draw(gd.legal_spec(max_axes=3, names=["a", "b"], vnames=["v"], multi_prob=0.95 if where == "inner" else 0.0))
    t_out = draw(gd.legal_spec(max_axes=2, names=["a", "b"], vnames=["v"], multi_prob=0.95 if where == "outer" else 0.0))
    if where in ("inner", "outer") and draw(st.integers(0, 1)) == 0:
        # a bare '*' (a named variadic axis whose name is the empty string -- it builds, and binds like any other name)
        tl = t_in if where == "inner" else t_out
        tl[:] = [dl.Token("*", "empty", None) if t.is_multi() else t for t in tl]
    if not t_out and draw(st.integers(0, 3)) != 0:
        # mostly a non-empty outer spec: then the nested annotation prints (and its dim_str reads) exactly like the flat one
        t_out = [dl.Token("", "name", draw(st.sampled_from(["b", "a"])))]
    inner_names = [t.base for t in t_in if t.base_kind == "name" and t.base]
    if inner_names and draw(st.integers(0, 4)) == 0:
        # the outer shape documents a fixed size with a name ('a=3') that the INNER annotation uses as an ordinary axis: the documentation
        # name is ignored, the two have nothing to do with each other -- also after the two strings were joined and parsed again
        t_out = [dl.Token("", "int", draw(st.sampled_from([3, 2])), draw(st.sampled_from(inner_names)), 0)]
    at = ["nested", inner, dl.spec_spelling(t_in), [draw(st.sampled_from(["np", "np", "any", "duck"]))]]
    if draw(st.integers(0, 3)) == 0:
        # three levels, the middle one without any axis of its own
        at = ["nested", draw(st.sampled_from(["Shaped", outer])), "", at]
    return {"cat": outer, "at": at, "spec": dl.spec_spelling(t_out)}


@st.composite
def c20_desc(draw):
    if draw(st.integers(0, 3)) == 0:
        return draw(nested_focus())
    toks = draw(gd.legal_spec(max_axes=4, bound=["a"], names=["a", "b"], vnames=["v"], multi_prob=0.45))
    if draw(st.integers(0, 5)) == 0:
        toks = [dl.Token("*", "empty", None) if t.is_multi() else t for t in toks]
    return {"cat": draw(st.sampled_from(["Shaped", "Float", "Num", "Inexact"] + CATS + USER)), "at": draw(array_type_desc()), "spec": dl.spec_spelling(toks),
            "twin_generator": draw(st.sampled_from([False, True, False, False])), "loaded_on_generator": draw(st.sampled_from([False, True, False]))}


def run(ctx):
    cross = []
    budget = [ctx.n(60, 400)]

    @given(c20_desc(), st.lists(st.sampled_from(ROUTES), min_size=2, max_size=3, unique=True), st.integers(0, 3))
    def cases(desc, routes, k):
        want_cross = k == 0 and len(cross) < 2 * budget[0]
        check_case(ctx, desc, routes, cross if want_cross else None)

    ctx.hyp(cases, max_examples=ctx.n(220, 1200))
    # a small fixed family, independent of the seed: nested annotations whose effective dtypes come from a category declared with compiled
    # regexes (their matching takes another path than plain names), through every route
    if ctx.shard == 0:
        try:
            for outer, inner in itertools.product(["Shaped", "Num", "FloatRe", "Mixed"], ["FloatRe", "Mixed", "UInt8or16", "Encoder.Dt"]):
                for spec_o, spec_i in (("b", "c"), ("", "*v")):
                    check_case(ctx, {"cat": outer, "at": ["nested", inner, spec_i, ["np"]], "spec": spec_o}, ROUTES)
        except Violation as v:
            ctx.record(v)
    # annotations that print alike but mean different things: a nested annotation and the flat one with the same
    # category, array type and concatenated spec; loaded one after the other in both orders
    @given(nested_focus(), st.sampled_from(["pickle2", "pickle5", "cloudpickle"]), st.booleans())
    def lookalikes(desc, route, flat_first):
        obs.reset_state()
        try:
            nested = build(desc)
        except ValueError:
            return
        flat_desc = {"cat": desc["cat"], "at": desc["at"][3], "spec": (desc["spec"] + " " + desc["at"][2]).strip()}
        flat = build(flat_desc)
        vn, vf_ = vector(nested), vector(flat)
        pair = [(flat, vf_, flat_desc), (nested, vn, desc)]
        if not flat_first:
            pair.reverse()
        for ann, v0, d in pair:
            try:
                back = roundtrip(ann, route)
            except BaseException as e:  # noqa: BLE001
                raise Violation("roundtrip-raised", dict(d, route=route), f"{route} of {describe(d)} raised {type(e).__name__}: {e}")
            v1 = vector(back)
            ctx.note(["lookalike", d, route, flat_first], True, classes=["lookalike-pair", f"route-{route}"])
            if v1 != v0:
                i = next(i for i, (x, y) in enumerate(zip(v0, v1)) if x != y)
                raise Violation("meaning-changed", dict(d, route=route, lookalike_of=(desc if d is flat_desc else flat_desc), flat_first=flat_first),
                                f"{route}: {describe(d)} loaded after its look-alike differs on {probe_label(i)}: original {v0[i]}, reconstructed {v1[i]}")
        # neither load may have touched either original
        for ann, v0, d in pair:
            v2 = vector(ann)
            if v2 != v0:
                i = next(i for i, (x, y) in enumerate(zip(v0, v2)) if x != y)
                raise Violation("original-changed", dict(d, route=route, lookalike_of=(desc if d is flat_desc else flat_desc), flat_first=flat_first),
                                f"{route}: after {describe(flat_desc)} and its look-alike {describe(desc)} were both dumped and loaded ({'flat' if flat_first else 'nested'} one first), "
                                f"the ORIGINAL {describe(d)} answers differently on {probe_label(i)}: {v0[i]} -> {v2[i]}")

    ctx.hyp(lookalikes, max_examples=ctx.n(40, 300))

    # a payload dumped earlier, loaded after the program went on using the annotation: loading must not touch the original.
    # The use in between is the one public use that is known to change an annotation object (old-style decoration of a
    # generator function, known finding of C12); each case gets an annotation class of its own (fresh axis name).
    @given(st.sampled_from(["Float", "Shaped", "Int8", "Num"] + CATS), gd.legal_spec(max_axes=2, names=["a", "b"], vnames=["v"], multi_prob=0.3),
           st.sampled_from(["cloudpickle", "pickle2", "cloudpickle", "pickle5"]), st.booleans(), st.sampled_from([True, False, False]))
    def stale_payload(cat, toks, route, use_between, disabled_at_creation):
        obs.reset_state()
        check_stale_payload(ctx, {"cat": cat, "spec": dl.spec_spelling(toks), "route": route, "use_between": use_between and not disabled_at_creation,
                                  "disabled_at_creation": disabled_at_creation})

    ctx.hyp(stale_payload, max_examples=ctx.n(30, 200))
    # loading in one thread while another thread builds / loads / uses annotations of the same category: the harness
    # owns the schedule (vf/sched.py), every thread must get what it gets alone
    from vf import sched

    small_probes = [np.zeros((3,), dtype=d) for d in ("int8", "float32", "bool")] + [np.zeros((2, 3), dtype=d) for d in ("int8", "float32")]

    def small_vector(ann):
        return [obs.verdict(v, ann) for v in small_probes]

    @given(nested_focus(), st.sampled_from([1, 2, 3, 5]), st.lists(st.tuples(st.integers(0, 1), st.sampled_from([1, 3, 8, 20, 50])), max_size=6))
    def threaded(desc, quantum, segments):
        obs.reset_state()
        try:
            nested = build(desc)
        except ValueError:
            return
        payload = pickle.dumps(nested)
        flat_payload = pickle.dumps(cat_obj(desc["cat"])[np.ndarray, "n"])

        def loader():
            out = []
            for _ in range(2):
                out.append(small_vector(pickle.loads(payload)))
            return out

        def other():
            out = []
            for i in range(3):
                out.append(small_vector(cat_obj(desc["cat"])[np.ndarray, "m"]))
                out.append(small_vector(pickle.loads(flat_payload)))
            return out

        solo = [sched.run_solo(loader), sched.run_solo(other)]
        res, s_ = sched.run_interleaved([loader, other], [tuple(x) for x in segments], quantum)
        if s_.errors:
            raise HarnessError(f"scheduler: {s_.errors}")
        ctx.note(["threaded", desc, quantum, segments], True, classes=["threaded-load"], sample={"annotation": describe(desc), "quantum": quantum, "switches": len(s_.switches)})
        if res != solo:
            raise Violation("threaded-load", dict(desc, route="threads", quantum=quantum, segments=[list(x) for x in segments]),
                            f"while one thread unpickled {describe(desc)}, another thread building/loading {desc['cat']}[ndarray,'m'/'n'] got {res[1]} instead of {solo[1]} "
                            f"(loader: {res[0]} vs {solo[0]}); {len(s_.switches)} context switches")

    ctx.hyp(threaded, max_examples=ctx.n(25, 200))
    # AbstractArray itself round-trips to itself
    for route in ROUTES:
        if roundtrip(AbstractArray, route) is not AbstractArray:
            ctx.record(Violation("abstractarray", {"route": route}, f"{route}: AbstractArray does not round-trip to itself"))
    if not ctx.violations:
        try:
            run_cross(ctx, cross)
        except Violation as v:
            ctx.record(v)


def replay(case, clause, ctx):
    case = dict(case)
    route = case.pop("route", "pickle2")
    if "cat" not in case:
        return None if roundtrip(AbstractArray, route) is AbstractArray else "AbstractArray does not round-trip"
    try:
        if route == "threads":
            return None  # schedule-dependent: re-derived by the run (vf/sched.py schedules are drawn by Hypothesis)
        if case.get("stale"):
            check_stale_payload(ctx, dict(case, route=route))
            return None
        if "lookalike_of" in case:
            other = case.pop("lookalike_of")
            flat_first = case.pop("flat_first", True)
            a, b = (build(other), build(case))
            va, vb = vector(a), vector(b)
            vector(roundtrip(a, route))
            v1 = vector(roundtrip(b, route))
            if v1 != vb:
                return f"{describe(case)} loaded after its look-alike {describe(other)} answers differently"
            if vector(a) != va or vector(b) != vb:
                return f"loading {describe(other)} and {describe(case)} one after the other changed what an original accepts"
            # the other order
            vector(roundtrip(b, route))
            vector(roundtrip(a, route))
            if vector(a) != va or vector(b) != vb:
                return f"loading {describe(case)} and {describe(other)} one after the other changed what an original accepts"
            return None
        if route.startswith("x-"):
            cross = []
            check_case(ctx, case, [], cross)
            c2 = type(ctx)(ctx.prop, ctx.tier, ctx.seed)
            run_cross(c2, [c for c in cross if c["route"] == route])
            if c2.violations:
                return c2.violations[0]["message"]
        else:
            check_case(ctx, case, [route])
    except Violation as v:
        return str(v)
    return None
