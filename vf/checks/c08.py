"""C08 -- PyTree[L] accepts exactly the trees all of whose leaves match L.

Trees (depth<=4, <=12 leaves) over tuple/list/dict/None/empty containers/namedtuple/registered custom
node; leaf types int, str, tuple[int,int], Union[int,str], Any, array annotations with named / variadic
axes, Union[array, str] and tuple[array, int]; 0..3 prior accepted array checks in the same context.
Oracle: the reference flatten of vf.models.pytree with "a subtree that matches L is a leaf; None and
empty containers contribute none", leaves matched left to right by the reference dim matcher sharing the
model context.  Laws checked on every case: PyTree[L] == PyTree[PyTree[L]], bare PyTree -> True, top-level
None -> True, rejected => bindings unchanged, accepted => bindings == model."""
from __future__ import annotations

from typing import Any, Union

import numpy as np
from hypothesis import given, strategies as st

from jaxtyping import PyTree, Shaped, jaxtyped
from vf import obs
from vf.core import Violation
from vf.gen import dims as gd
from vf.gen import trees as gt
from vf.models import dimlang as dl
from vf.models import pytree as pt
from vf.models import dtypes as dt
from vf.checks import c01

ID = "C08"
LEVEL = "exploration"
SHARDS = {"quick": 4, "thorough": 16}
RULE = (
    "Hypothesis draws (prior context of 0..3 accepted array checks, leaf type L, tree): L in {int, str, tuple[int,int], "
    "Union[int,str], int|str, Any, Shaped[ndarray, spec] with named/variadic axes, Union[Shaped[..], str], Shaped[..]|str, tuple[Shaped[..], int], a NamedTuple class with two array fields}; tree payloads are mostly of the right kind with "
    "~15% wrong-kind leaves; array leaf shapes are drawn one after the other against the evolving model context (so later "
    "leaves meet bindings made by earlier ones) and broken w.p. ~0.15 each. Each case evaluates PyTree[L], PyTree[PyTree[L]] "
    "and bare PyTree. Non-trivial = >=3 leaves at >=2 depths AND (a subtree that itself matches L, or a None/empty node, or an "
    "array leaf compared against a binding made by an earlier leaf or the prior context); distinct by (L, tree, prior bindings)."
)
ASSUMPTIONS = [
    "leaf types whose leaf *boundary* would depend on shapes (a Union containing an array type and a tuple of it) are not generated",
    "namedtuple nodes are not combined with L = tuple[int,int] (a namedtuple of two ints is a tuple instance: boundary not documented)",
    "reference PyTree model vf/models/pytree.py (cross-checked against jax.tree_util inside C09's run)",
]

LEAF_KINDS = ["array", "union-arr", "int", "tuple-arr", "nt-arr", "pair", "pair-any", "array", "union", "union-bar", "str", "any", "array", "union-arr-bar", "pair-none"]
ARRAYISH = ("array", "union-arr", "tuple-arr", "union-arr-bar", "nt-arr")
_PAIR_CLS = {}


def leaf_type(lk, spec):
    if lk == "int":
        return int
    if lk == "str":
        return str
    if lk == "pair":
        return tuple[int, int]
    if lk == "pair-any":
        return tuple[int, Any]  # second slot unconstrained
    if lk == "pair-none":
        return tuple[int, None]  # PEP 585 generic with a bare None argument: the second slot must be None
    if lk == "union":
        return Union[int, str]
    if lk == "union-bar":
        return int | str  # PEP 604 spelling of the same union
    if lk == "union-arr-bar":
        return Shaped[np.ndarray, spec] | str
    if lk == "any":
        return Any
    if lk == "union-arr":
        return Union[Shaped[np.ndarray, spec], str]
    if lk == "tuple-arr":
        return tuple[Shaped[np.ndarray, spec], int]
    if lk == "nt-arr":
        # a NamedTuple class whose two fields are array annotations: its instances are leaves, both fields share bindings
        if spec not in _PAIR_CLS:
            from typing import NamedTuple

            F = Shaped[np.ndarray, spec]
            _PAIR_CLS[spec] = NamedTuple("Pair", [("p", F), ("q", F)])
        return _PAIR_CLS[spec]
    return Shaped[np.ndarray, spec]


def is_pair(d):
    return d[0] == "tuple" and len(d[1]) == 2 and all(c[0] == "leaf" and c[1][0] == "i" for c in d[1])


def is_pair_any(d):
    """(int, <any single object>): the second slot may be any leaf payload (a str, an int, an array)."""
    return d[0] == "tuple" and len(d[1]) == 2 and d[1][0][0] == "leaf" and d[1][0][1][0] == "i" and d[1][1][0] == "leaf"


def is_pair_none(d):
    """(int, None)"""
    return d[0] == "tuple" and len(d[1]) == 2 and d[1][0][0] == "leaf" and d[1][0][1][0] in ("i", "b") and d[1][1][0] == "none"


def is_arr_int(d):
    return d[0] == "tuple" and len(d[1]) == 2 and d[1][0][0] == "leaf" and d[1][0][1][0] == "a" and d[1][1][0] == "leaf" and d[1][1][1][0] == "i"


def matches_flat(d, lk):
    """Does the subtree d match L when only looking at types (leaf discovery)?"""
    lk = {"union-bar": "union", "union-arr-bar": "union-arr"}.get(lk, lk)
    if lk == "pair":
        return is_pair(d)
    if lk == "pair-any":
        return is_pair_any(d)
    if lk == "pair-none":
        return is_pair_none(d)
    if lk == "tuple-arr":
        return is_arr_int(d)
    if lk == "union-arr":
        return d[0] == "leaf" and d[1][0] in ("a", "s")
    if lk == "nt-arr":
        return d[0] == "leaf" and d[1][0] == "P"
    if d[0] != "leaf":
        return False
    pk = d[1][0]
    # bool is a subclass of int; a float is not an int, even when it compares equal to one
    if lk == "int":
        return pk in ("i", "b")
    if lk == "str":
        return pk == "s"
    if lk == "union":
        return pk in ("i", "s", "b")
    if lk == "array":
        return pk == "a"
    raise AssertionError(lk)


def model(lk, meanings, desc, m: dl.MCtx):
    """-> (allowed verdicts, context after acceptance, info)"""
    if desc[0] == "none":
        return {dl.TRUE}, m, {"leaves": 0}
    if lk == "any":
        return {dl.TRUE}, m, {"leaves": len(pt.leaves(desc))}
    lvs = pt.leaves(desc, is_leaf=lambda d: matches_flat(d, lk))
    m2 = m.copy()
    used_binding = False
    for lf in lvs:
        if not matches_flat(lf, lk):
            return {dl.FALSE}, m, {"leaves": len(lvs)}
        if lk in ARRAYISH and not (lk in ("union-arr", "union-arr-bar") and lf[1][0] == "s"):
            before = set(m2.single) | set(m2.variadic)
            if lk == "nt-arr":
                # two fields, matched one after the other
                o = dl.match(meanings, lf[1][1][0], m2)
                if o.allowed == {dl.TRUE}:
                    o2 = dl.match(meanings, lf[1][1][1], o.ctx)
                    o = dl.Outcome(o2.allowed, o2.ctx, o.tentative + o2.tentative, tuple(set(o.classes) | set(o2.classes) | {"named-bound"}))
            else:
                shp = lf[1][0][1][1] if lk == "tuple-arr" else lf[1][1]
                o = dl.match(meanings, shp, m2)
            if any(c in o.classes for c in ("named-bound",)) or any(c.startswith("var-") and c != "var-new" and "prefix" not in c and "suffix" not in c for c in o.classes):
                used_binding = True
            if o.allowed == {dl.TRUE}:
                m2 = o.ctx
            elif dl.TRUE in o.allowed:
                return set(o.allowed) | {dl.FALSE}, m2, {"leaves": len(lvs), "unspecified": True}
            else:
                return set(o.allowed), m, {"leaves": len(lvs), "used_binding": used_binding}
    return {dl.TRUE}, m2, {"leaves": len(lvs), "used_binding": used_binding}


class Boxed:
    """An array class that is itself a registered PyTree node (like jax.experimental.sparse.BCOO, or a user container with
    .shape/.dtype): as a leaf type's array class its instances are leaves, JAX must not be left to descend into them."""

    def __init__(self, data):
        self.data = data

    shape = property(lambda self: self.data.shape)
    dtype = property(lambda self: self.data.dtype)


import jax.tree_util as _jtu  # noqa: E402

_jtu.register_pytree_node(Boxed, lambda b: ((b.data,), None), lambda aux, ch: Boxed(ch[0]))


class _BadFlatten:
    pass


def _bad_flatten(x):
    raise RuntimeError("this node cannot be flattened right now")


_jtu.register_pytree_node(_BadFlatten, _bad_flatten, lambda aux, ch: _BadFlatten())


def check_bare_pytree(ctx):
    """isinstance(x, PyTree) -- no leaf type -- is True for every object whatsoever, also for values JAX cannot flatten."""
    values = {"dict with unsortable keys": {1: "a", "b": 2}, "node whose flatten raises": _BadFlatten(), "object()": object(), "a generator": (i for i in range(2)),
              "None": None, "a class": int, "nested unflattenable": [({1: 0, "x": 1},), _BadFlatten()], "Boxed array": Boxed(np.zeros((2,)))}
    for name, v in values.items():
        got = obs.verdict(v, PyTree)
        ctx.note(["bare-pytree", name], True, classes=["bare-pytree-value"], sample={"bare_pytree_value": name, "verdict": got})
        if got != dl.TRUE:
            raise Violation("bare-pytree", {"bare_value": name}, f"isinstance(<{name}>, PyTree) gave {got}; a bare PyTree accepts everything")


def payload_value(p):
    if p[0] == "f":
        return float(p[1])
    if p[0] == "b":
        return bool(p[1])
    if p[0] == "i":
        return p[1]
    if p[0] == "s":
        return p[1]
    return np.zeros(tuple(p[1]))


def expand_pairs(d):
    k = d[0]
    if k == "leaf":
        if d[1][0] == "pair":
            return ("tuple", [("leaf", ("i", d[1][1])), ("leaf", ("i", d[1][1] + 1))])
        if d[1][0] == "pairnone":
            return ("tuple", [("leaf", ("i", d[1][1])), ("none",)])
        if d[1][0] == "pairany":
            return ("tuple", [("leaf", ("i", d[1][1])), ("leaf", d[1][2])])
        if d[1][0] == "arrint":
            return ("tuple", [("leaf", ("a", d[1][1])), ("leaf", ("i", 7))])
        return d
    if k == "none":
        return d
    if k in ("tuple", "list", "nt"):
        return (k, [expand_pairs(c) for c in d[1]])
    if k == "dict":
        return ("dict", [(key, expand_pairs(c)) for key, c in d[1]])
    return ("custom", d[1], [expand_pairs(c) for c in d[2]])


def depths_of_leaves(d, depth=0, out=None):
    out = out if out is not None else []
    if d[0] == "leaf":
        out.append(depth)
    elif d[0] != "none":
        for c in pt.children(d):
            depths_of_leaves(c, depth + 1, out)
    return out


def has_empty(d):
    if d[0] == "none":
        return True
    if d[0] == "leaf":
        return False
    cs = pt.children(d)
    return not cs or any(has_empty(c) for c in cs)


def check_case(ctx, case):
    obs.reset_state()
    lk = case["leaf"]
    toks = [c01.tok_from_json(j) for j in case.get("tokens", [])]
    spec = dl.spec_spelling(toks)
    meanings = [t.meaning() for t in toks]
    L0 = L = leaf_type(lk, spec)
    boxed = bool(case.get("boxed")) and lk == "array"
    if boxed:
        L0 = L = Shaped[Boxed, spec]
    for i in range(case.get("newtype", 0)):
        # typing.NewType over the leaf type (once, or a NewType of a NewType): at run time a value matches it iff it matches the underlying type
        from typing import NewType

        L = NewType(f"VfNew{i}", L)
    desc = gt.from_json(case["tree"])
    real = pt.build(desc, (lambda p: L0(np.zeros(tuple(p[1][0])), np.zeros(tuple(p[1][1]))) if p[0] == "P" else (Boxed(payload_value(p)) if boxed and p[0] == "a" else payload_value(p))))
    share = case.get("share")
    if share:
        # one and the same container object referenced from two places of the tree (`row = [...]; [row, row]`, one config dict stored
        # under two keys): a tree like any other -- its leaves are the leaves of both occurrences
        desc = ("list", [desc, desc]) if share == "list" else ("dict", [("k0", desc), ("k1", desc)])
        real = [real, real] if share == "list" else {"k0": real, "k1": real}
    with jaxtyped("context"):
        m = dl.MCtx()
        for pj, shape in case["prior"]:
            ptoks = [c01.tok_from_json(j) for j in pj]
            pm = [t.meaning() for t in ptoks]
            got = obs.verdict(np.zeros(tuple(shape)), Shaped[np.ndarray, dl.spec_spelling(ptoks)])
            o = dl.match(pm, shape, m)
            if got not in o.allowed:
                raise Violation("prior-check", case, f"prior array check gave {got}, reference {sorted(o.allowed)}")
            if got == dl.TRUE:
                m = o.ctx
        before = obs.bindings()
        allowed, newm, info = model(lk, meanings, desc, m)
        descr = f"{'the tree below, twice (same object) in a ' + share + '; ' if share else ''}L={'NewType^' + str(case['newtype']) + ' of ' if case.get('newtype') else ''}{lk}{'[' + spec + ']' if lk in ARRAYISH else ''} tree={case['tree']} prior bindings={before[0]}"
        # bare PyTree and the nested spelling first (on a rejected tree they must leave no trace either)
        if obs.verdict(real, PyTree) != dl.TRUE:
            raise Violation("bare-pytree", case, f"isinstance(x, PyTree) is not True for {descr}")
        got_nested = obs.verdict(real, PyTree[PyTree[L]])
        mid = obs.bindings()
        if got_nested != dl.TRUE and mid != before:
            raise Violation("rollback", case, f"PyTree[PyTree[L]] gave {got_nested} but bindings changed {before} -> {mid}; {descr}")
        got = obs.verdict(real, PyTree[L])
        after = obs.bindings()
        if got not in allowed:
            raise Violation("verdict", case, f"isinstance(tree, PyTree[L]) = {got}, reference allows {sorted(allowed)} ({info}); {descr}")
        if got_nested not in allowed:
            raise Violation("nested-law", case, f"PyTree[PyTree[L]] = {got_nested} but PyTree[L] semantics allow {sorted(allowed)}; {descr}")
        if len(allowed) == 1 and got_nested != got:
            raise Violation("nested-law", case, f"PyTree[PyTree[L]] = {got_nested} != PyTree[L] = {got}; {descr}")
        if got != dl.TRUE:
            if after != before and got_nested != dl.TRUE:
                raise Violation("rollback", case, f"rejected tree changed bindings {before} -> {after}; {descr}")
        elif not info.get("unspecified"):
            if after[0] != newm.bindings():
                raise Violation("bindings-after", case, f"accepted tree: print_bindings {after[0]} != model {newm.bindings()}; {descr}")
        # a passing check is idempotent here too
        if got == dl.TRUE and obs.verdict(real, PyTree[L]) != dl.TRUE:
            raise Violation("idempotence", case, f"second identical check failed; {descr}")
    dl_ = depths_of_leaves(desc)
    subtree_leaf = lk in ("pair", "pair-any", "pair-none", "tuple-arr", "nt-arr") and "pair-subtree" in case.get("flags", [])
    nontrivial = len(dl_) >= 3 and len(set(dl_)) >= 2 and (subtree_leaf or has_empty(desc) or info.get("used_binding", False))
    ctx.note([lk, spec, case["tree"], case["prior"]], nontrivial,
             classes=([f"newtype-{lk}"] if case.get("newtype") else []) + ([f"shared-subtree-{desc[1][0][0] if share == 'list' else desc[1][0][1][0]}"] if share else []) + (["array-class-is-a-pytree-node"] if boxed else []) + [f"leaf-{lk}", f"got-{got}", f"nleaves-{min(len(dl_), 6)}"] + (["has-empty-or-none"] if has_empty(desc) else [])
             + (["used-binding"] if info.get("used_binding") else []) + (["subtree-is-leaf"] if subtree_leaf else []),
             sample={"leaf_type": lk, "spec": spec, "tree": case["tree"], "prior_bindings": before[0], "verdict": got})


@st.composite
def c08_case(draw):
    lk = draw(st.sampled_from(LEAF_KINDS))
    case = {"leaf": lk, "prior": [], "flags": [], "newtype": draw(st.sampled_from([0, 1, 0, 0, 2])), "boxed": draw(st.sampled_from([True, False, False])),
            "share": draw(st.sampled_from([None, "list", None, "dict", None, None]))}
    m = dl.MCtx()
    for _ in range(draw(st.integers(0, 3))):
        ptoks = draw(gd.legal_spec(max_axes=3, bound=sorted(m.single), names=["a", "b", "c"], vnames=["v"]))
        pm = gd.meanings_of(ptoks)
        shape, _ = draw(gd.shape_for(pm, m, mutate_prob=0.05))
        o = dl.match(pm, shape, m)
        if o.ctx is not None and o.allowed == {dl.TRUE}:
            m = o.ctx
        case["prior"].append([[c01.tok_json(t) for t in ptoks], list(shape)])
    allow = ("tuple", "list", "dict", "none", "nt", "custom") if lk not in ("pair", "pair-any", "pair-none", "tuple-arr", "nt-arr") else (("tuple", "list", "dict", "none", "custom") if lk != "pair-none" else ("tuple", "list", "dict", "custom"))
    shape_desc = draw(gt.tree_desc(st.just(0), max_depth=4, max_leaves=12, allow=allow))
    nl = len(pt.leaves(shape_desc))
    payloads = []
    ints = st.integers(2, 50)
    strs = st.sampled_from(["s", "t", "uv"])
    if lk in ARRAYISH:
        toks = draw(gd.legal_spec(max_axes=3, bound=sorted(m.single), names=["a", "b", "c"], vnames=["v"]))
        case["tokens"] = [c01.tok_json(t) for t in toks]
        meanings = gd.meanings_of(toks)
        mm = m.copy()
        for _ in range(nl):
            if gd.chance(draw, 0.07):
                payloads.append(("i", draw(ints)))
                continue
            if lk in ("union-arr", "union-arr-bar") and draw(st.integers(0, 3)) == 3:
                payloads.append(("s", draw(strs)))
                continue
            shp, _ = draw(gd.shape_for(meanings, mm, mutate_prob=0.15))
            o = dl.match(meanings, shp, mm)
            if o.ctx is not None:
                mm = o.ctx
            if lk == "nt-arr":
                shp2 = shp
                if o.ctx is not None:
                    shp2, _ = draw(gd.shape_for(meanings, mm, mutate_prob=0.12))
                    o2 = dl.match(meanings, shp2, mm)
                    if o2.ctx is not None:
                        mm = o2.ctx
                payloads.append(("P", [list(shp), list(shp2)]))
                case["flags"] = ["pair-subtree"]
                continue
            payloads.append(("arrint" if lk == "tuple-arr" else "a", list(shp)))
            if lk == "tuple-arr":
                case["flags"] = ["pair-subtree"]
    else:
        case["tokens"] = []
        for _ in range(nl):
            wrong = gd.chance(draw, 0.14)
            small = st.integers(0, 2)  # 1 == 1.0 == True: equal-comparing scalars of different types
            if lk == "int":
                payloads.append(draw(st.sampled_from([("f", draw(small)), ("s", draw(strs)), ("f", draw(small))])) if wrong
                                else draw(st.sampled_from([("i", draw(small)), ("i", draw(ints)), ("b", draw(small) % 2), ("i", draw(small))])))
            elif lk == "str":
                payloads.append(("i", draw(ints)) if wrong else ("s", draw(strs)))
            elif lk in ("union", "union-bar"):
                payloads.append(draw(st.sampled_from([("f", draw(small)), ("a", [2])])) if wrong
                                else draw(st.one_of(small.map(lambda v: ("i", v)), strs.map(lambda v: ("s", v)), ints.map(lambda v: ("i", v)))))
            elif lk == "pair-any":
                r = draw(st.integers(0, 9))
                if r <= 7:
                    payloads.append(("pairany", draw(ints), draw(st.sampled_from([("s", "t"), ("i", 5), ("a", [2]), ("f", 1)]))))
                    case["flags"] = ["pair-subtree"]
                else:
                    payloads.append(("s", draw(strs)))
            elif lk == "pair-none":
                r = draw(st.integers(0, 9))
                if r <= 6:
                    payloads.append(("pairnone", draw(ints)))
                    case["flags"] = ["pair-subtree"]
                else:
                    # (int, <not None>), a lone int, a str: none of them is an (int, None) pair
                    payloads.append(draw(st.sampled_from([("pairany", draw(ints), ("s", "t")), ("pairany", draw(ints), ("i", 5)), ("i", draw(ints)), ("s", "x")])))
            elif lk == "pair":
                r = draw(st.integers(0, 9))
                if r <= 6:
                    payloads.append(("pair", draw(ints)))
                    case["flags"] = ["pair-subtree"]
                else:
                    payloads.append(("i", draw(ints)) if r <= 8 else ("s", draw(strs)))
            else:  # any
                payloads.append(draw(st.one_of(ints.map(lambda v: ("i", v)), strs.map(lambda v: ("s", v)), st.just(("a", [2, 3])))))
    d = gt.relabel(shape_desc, iter(payloads))
    case["tree"] = gt.to_json(expand_pairs(d))
    return case


def check_lookalike_leaf_types(ctx, case):
    """Two leaf types that are spelled alike but mean different things -- a nested annotation that narrows the dtypes, `Shaped[Float[A,
    s1], s2]`, and the flat `Shaped[A, 's2 s1']` -- each wrapped in PyTree[...] in the same process, in either order: every PyTree[L]
    judges leaves by ITS leaf type."""
    from jaxtyping import Float, Int

    obs.reset_state()
    s1, s2 = case["s1"], case["s2"]
    inner_cat = {"Float": Float, "Int": Int}[case["inner"]]
    shape = tuple(case["shape"])
    builders = {"narrow": lambda: Shaped[inner_cat[np.ndarray, s1], s2], "flat": lambda: Shaped[np.ndarray, (s2 + " " + s1).strip()]}
    order = ["narrow", "flat"] if case["narrow_first"] else ["flat", "narrow"]
    anns = {k: PyTree[builders[k]()] for k in order}  # (created in this order)
    for dtype in ("float32", "int32"):
        tree = [np.zeros(shape, dtype=dtype), {"k": np.zeros(shape, dtype=dtype)}]
        for k in order:
            want = "True" if (k == "flat" or dt.accepts(case["inner"], dtype)) else "False"
            got = obs.verdict(tree, anns[k])
            if got != want:
                raise Violation("lookalike-leaf-types", dict(case, lookalike=True),
                                f"PyTree[{'Shaped[' + case['inner'] + '[ndarray,' + repr(s1) + '],' + repr(s2) + ']' if k == 'narrow' else 'Shaped[ndarray,' + repr((s2 + ' ' + s1).strip()) + ']'}] "
                                f"(created {'first' if order[0] == k else 'second'}) on a tree of two {dtype} arrays of shape {shape}: {got}, expected {want}")
    ctx.note(["lookalike", s1, s2, case["inner"], case["narrow_first"]], True, classes=["lookalike-leaf-types"], sample={"lookalike_leaf_types": case})


def run(ctx):
    @given(c08_case())
    def cases(case):
        check_case(ctx, case)

    ctx.hyp(cases, max_examples=ctx.n(500, 3000))

    names = st.sampled_from(["a", "b", "c", "rows", "k8"])

    @given(st.fixed_dictionaries({"s1": names, "s2": st.one_of(names, st.just("")), "inner": st.sampled_from(["Float", "Int"]), "narrow_first": st.booleans(),
                                  "shape": st.lists(st.sampled_from([2, 3]), min_size=2, max_size=2)}))
    def lookalikes(case):
        if case["s2"] == "":
            case = dict(case, shape=case["shape"][:1])
        elif case["s1"] == case["s2"]:
            case = dict(case, shape=[case["shape"][0]] * 2)
        check_lookalike_leaf_types(ctx, case)

    ctx.hyp(lookalikes, max_examples=ctx.n(40, 200))
    if ctx.shard == 0:
        try:
            check_bare_pytree(ctx)
        except Violation as v:
            ctx.record(v)


def replay(case, clause, ctx):
    try:
        if "bare_value" in case:
            check_bare_pytree(ctx)
            return None
        if case.get("lookalike"):
            check_lookalike_leaf_types(ctx, case)
            return None
        check_case(ctx, case)
    except Violation as v:
        return str(v)
    return None
