"""C16 -- '?' axes are per-leaf-position axes of exactly one structured PyTree.

Decorated calls f(x: PyTree[L,'T'], y: PyTree[L,'T'], [z: PyTree[L,'T']], [w: plain axis of the same
name]) over 2..3 trees of identical or mutated structure whose leaves are arrays.  L contains '?name' /
'*?name' alone, inside Union[int, .], inside tuple[., int], or inside a structure-less PyTree[.].
Oracle: reference matcher with per-position names: accepted iff the structures are equal and for each
leaf position all trees agree on the '?' sizes; plain axes of the same name are independent;
AnnotationError exactly for the misuse forms (no enclosing structure / two nested structures / bare
isinstance); never AnnotationError when exactly one structured PyTree encloses the axis; afterwards a
bare '?' check raises AnnotationError again (the leaf label is cleared)."""
from __future__ import annotations

import warnings
from typing import NamedTuple, NewType, Optional, Union

import numpy as np
from hypothesis import given, strategies as st

from jaxtyping import AnnotationError, PyTree, Shaped, TypeCheckError, jaxtyped
from vf import obs
from vf.core import Violation
from vf.gen import calls as gc
from vf.gen import dims as gd
from vf.gen import trees as gt
from vf.models import dimlang as dl
from vf.models import pytree as pt
from vf.models.ptcheck import model_pytree_check
from vf.checks import c01

ID = "C16"
LEVEL = "exploration"
SHARDS = {"quick": 4, "thorough": 16}
RULE = (
    "Hypothesis draws a leaf spec of 1..3 axes containing >=1 '?name' or '*?name' (names foo/a, also used plainly), a wrapping "
    "in {plain, Union[int,.], tuple[.,int], structure-less PyTree[.]}, a base tree (tuples/lists/dicts, 1..5 array leaves, ints "
    "for the Union wrapping) and 2..3 argument trees derived from it: per-position sizes are drawn once and reused, then 0..1 "
    "mutations (swap two leaves' shapes, change one shape, add a leaf); optionally a plain-axis parameter of the same name before "
    "or after; optionally equal-shaped leaves of one tree are the same array object; both typecheckers. Plus the three misuse forms. Non-trivial = >=2 trees and >=2 leaf positions whose '?' sizes "
    "differ from each other; distinct by (spec, wrapping, trees)."
)
ASSUMPTIONS = [
    "for the structure-less-PyTree wrapping the trees contain arrays only, so the whole tree is a single leaf of T (position 0)",
    "reference matcher with leaf labels in vf/models/dimlang.py + vf/models/ptcheck.py",
]

WRAPS = ["plain", "union", "tuple", "nested", "lazy", "optional", "newtype", "ntfield", "extended", "plain", "union-failfirst", "union-pytree"]
_NT_CLS = {}


def _helper(x):
    return x


_helper.__annotations__ = {"x": Shaped[np.ndarray, "vf_lazy_n"], "return": Shaped[np.ndarray, "vf_lazy_n"]}
_helper = jaxtyped(typechecker=gc.checker("typeguard"))(_helper)


class LazyArr:
    """A lazy array: reading .shape or .dtype runs user code that itself calls a jaxtyped function and opens a context block
    (re-entrancy in the middle of a leaf check).  Semantically an ordinary duck array."""

    def __init__(self, shape):
        self._shape = tuple(shape)

    @property
    def shape(self):
        _helper(np.zeros((len(self._shape) + 1,)))
        return self._shape

    @property
    def dtype(self):
        with jaxtyped("context"):
            isinstance(np.zeros((2,)), Shaped[np.ndarray, "vf_lazy_m"])
        return "float32"


def leaf_annotation(spec, wrap):
    if wrap == "lazy":
        return Shaped[LazyArr, spec]
    if wrap == "extended":
        # the annotation extends another one; the '?' axis may sit in the inner (wrapped) annotation: Shaped[Shaped[A, "<tail>"], "<head>"]
        toks = spec.split()
        k = next((i for i, t in enumerate(toks) if "?" in t.split("=")[-1][:4] or "?" in t), len(toks))
        k = min(k, max(0, len(toks) - 1))
        return Shaped[Shaped[np.ndarray, " ".join(toks[k:])], " ".join(toks[:k])]
    base = Shaped[np.ndarray, spec]
    if wrap == "plain":
        return base
    if wrap == "union":
        return Union[int, base]
    if wrap == "union-failfirst":
        # a first alternative that binds the '?' axis (to the size of ANOTHER dimension) and then fails on an impossible size 99: what it
        # bound is gone when the right alternative is tried
        toks = spec.split()
        q = next((i for i, t in enumerate(toks) if t.startswith(("?", "#?", "?#")) and "*" not in t), None)
        if q is not None and q >= 1 and len(toks) >= 2 and not any("*" in t or t == "..." for t in toks):
            alt = [toks[q]] + ["_"] * (len(toks) - 2) + ["99"]
        else:
            alt = toks[:-1] + ["99"] if len(toks) >= 2 and not ("*" in toks[-1] or toks[-1] == "...") else ["99"] * max(1, len(toks))
        return Union[Shaped[np.ndarray, " ".join(alt)], base]
    if wrap == "union-pytree":
        # a first alternative that is a structure-less PyTree and does not match an array leaf
        return Union[PyTree[int], base]
    if wrap == "newtype":
        return NewType("VfArr", base)  # at run time: exactly the underlying annotation
    if wrap == "ntfield":
        # a NamedTuple class whose first field carries the '?' annotation: its instances are the leaves
        if spec not in _NT_CLS:
            _NT_CLS[spec] = NamedTuple("VfPair", [("p", base), ("q", int)])
        return _NT_CLS[spec]
    if wrap == "optional":
        return Optional[base]  # None is then a leaf like any other (it occupies a leaf position)
    if wrap == "tuple":
        return tuple[base, int]
    if wrap == "nested":
        return PyTree[base]
    raise AssertionError(wrap)


def build_value(desc, wrap, alias=False, enum_keys=False, spec=None):
    """alias=True: leaves of equal shape within one tree are the very same array object (tied weights)."""
    cache = {}

    def payload(p):
        if p == "int":
            return 12345
        if p == "none":
            return None
        if wrap == "lazy":
            return LazyArr(p)
        if alias:
            arr = cache.setdefault(tuple(p), np.zeros(tuple(p)))
        else:
            arr = np.zeros(tuple(p))
        if wrap == "ntfield":
            return _NT_CLS[spec](arr, 7)
        return (arr, 7) if wrap == "tuple" else arr

    # enum_keys: dict keys are members of str-valued Enums, == to (and hashing like) the plain strings: the same tree structure
    return pt.build(desc, payload, key=(lambda k: pt.KEY_ENUM[k]) if enum_keys else (lambda k: k))


def plain_parts(plain):
    """plain = [when, name, size | shape, mods?] -> (token, shape)"""
    mods = plain[3] if len(plain) > 3 else ""
    shape = tuple(plain[2]) if isinstance(plain[2], (list, tuple)) else (plain[2],)
    return dl.Token(mods, "name", plain[1]), shape


def toggle_broadcast(toks):
    """the same spec with '#' toggled on every per-leaf ('?') token"""
    out = []
    for t in toks:
        if "?" in t.mods:
            t2 = dl.Token(t.mods.replace("#", "") if "#" in t.mods else "#" + t.mods, t.base_kind, t.base, t.doc, t.docpos)
            out.append(t2 if t2.legal() else t)
        else:
            out.append(t)
    return out


def check_case(ctx, case):
    obs.reset_state()
    toks = [c01.tok_from_json(j) for j in case["tokens"]]
    spec = dl.spec_spelling(toks)
    meanings = [t.meaning() for t in toks]
    wrap = case["wrap"]
    L = leaf_annotation(spec, wrap)
    trees = [gt.from_json(t) for t in case["trees"]]
    alt_last = bool(case.get("alt_last")) and len(trees) >= 2  # the last tree is annotated with the '#'-toggled spec
    alt_toks = toggle_broadcast(toks)
    alt_spec = dl.spec_spelling(alt_toks)
    alt_meanings = [t.meaning() for t in alt_toks]
    # ---- model
    m = dl.MCtx()
    verdicts = []
    order = []
    plain = case.get("plain")  # None | ["before"|"after", name, size]
    if plain and plain[0] == "before":
        order.append(("plain", None))
    order += [("tree", i) for i in range(len(trees))]
    if plain and plain[0] == "after":
        order.append(("plain", None))
    allowed_all = {dl.TRUE}
    for kind, i in order:
        if kind == "plain":
            ptok, pshape = plain_parts(plain)
            o = dl.match([ptok.meaning()], pshape, m)
            al, newm = set(o.allowed), (o.ctx or m)
        else:
            al, newm, _, _ = model_pytree_check(m, alt_meanings if (alt_last and i == len(trees) - 1) else meanings, "T", ("none",) if tuple(trees[i]) == ("leaf", "none") else trees[i], accept_payload=(lambda p: p in ("int", "none")) if wrap in ("union", "optional") else None,
                                                single_position=(wrap == "nested"))
        if al != {dl.TRUE}:
            allowed_all = al
            break
        m = newm
    # ---- real
    desc = f"L={wrap}[{spec!r}] trees={case['trees']} plain={plain}" + (f" last tree annotated {alt_spec!r}" if alt_last else "")
    for ck in ("typeguard", "beartype"):
        ns = {"PT": PyTree[L, "T"], "PTALT": PyTree[leaf_annotation(alt_spec, wrap), "T"], "__name__": "vf_generated"}
        params = []
        vals = []
        for kind, i in order:
            if kind == "plain":
                ptok, pshape = plain_parts(plain)
                ns["PL"] = Shaped[np.ndarray, ptok.spelling()]
                params.append("w: PL")
                vals.append(np.zeros(pshape))
            else:
                params.append(f"t{i}: PTALT" if (alt_last and i == len(trees) - 1) else f"t{i}: PT")
                vals.append(build_value(trees[i], wrap, alias=bool(case.get('alias')), enum_keys=bool(case.get("enum_keys")) and i >= 1, spec=spec if not (alt_last and i == len(trees) - 1) else alt_spec))
        src = f"def fn({', '.join(params)}):\n    return None\n"
        gc.exec_source(src, "<vf-c16>", ns)
        with warnings.catch_warnings():
            warnings.simplefilter("ignore")
            fn = jaxtyped(typechecker=gc.checker(ck))(ns["fn"])
        try:
            fn(*vals)
            got = dl.TRUE
        except AnnotationError as e:
            got = dl.ANNERR
            err = e
        except TypeCheckError:
            got = dl.FALSE
        except Exception as e:
            got = f"raised {type(e).__name__}: {e}"[:200]
        if got not in allowed_all:
            raise Violation("verdict", dict(case, checker=ck), f"[{ck}] call {'accepted' if got == dl.TRUE else got}, reference allows {sorted(allowed_all)}; {desc}")
        # the leaf label must be cleared: '?' outside a PyTree raises again
        v = obs.verdict(np.zeros((3,)), Shaped[np.ndarray, "?vf_probe"])
        if v != dl.ANNERR:
            raise Violation("label-leaked", dict(case, checker=ck), f"[{ck}] after the call, isinstance(x, Shaped[ndarray,'?vf_probe']) gave {v} instead of AnnotationError; {desc}")
    # ---- accounting
    sizes_by_pos = {}
    for t in trees[:1]:
        for i, lf in enumerate(pt.leaves(t)):
            if lf[1] not in ("int", "none"):
                sizes_by_pos[i] = tuple(lf[1])
    nontrivial = len(trees) >= 2 and len(set(sizes_by_pos.values())) >= 2
    ctx.note([spec, wrap, case["trees"], plain], nontrivial,
             classes=[f"wrap-{wrap}", f"ntrees-{len(trees)}", f"verdict-{'+'.join(sorted(allowed_all))}", f"mutation-{case['mutation']}"] + (["plain-same-name"] if plain else []) + (["symbolic-axis-over-plain-name"] if any(t.base_kind == "sym" for t in toks) else []) + (["plain-variadic"] if plain and len(plain) > 3 and "*" in plain[3] else []) + (["alt-last"] if alt_last else []) + (["enum-dict-keys"] if case.get("enum_keys") and len(trees) >= 2 and "dict" in str(case["trees"][1]) else []) + (["aliased-leaves"] if case.get("alias") else []),
             sample={"spec": spec, "wrap": wrap, "trees": case["trees"], "plain": plain, "accepted": sorted(allowed_all)})


def check_misuse(ctx, case):
    obs.reset_state()
    form = case["misuse"]
    spec = case["spec"]
    shapes = {"?foo": ((3,), (4,)), "*?foo": ((3,), (4, 2)), "a ?foo": ((3, 4), (3, 5)), "?a ?foo": ((3, 4), (5, 6)),
              "#?foo 3": ((2, 3), (4, 3)), "?foo ...": ((3, 5, 6), (4,))}[spec]
    a3, a4 = np.zeros(shapes[0]), np.zeros(shapes[1])
    base = Shaped[np.ndarray, spec]
    if form == "bare":
        with jaxtyped("context"):
            got = obs.verdict(a3, base)
    elif form == "no-structure":
        with jaxtyped("context"):
            got = obs.verdict((a3, a4), PyTree[base])
    elif form == "two-structures":
        with jaxtyped("context"):
            got = obs.verdict((a3, a4), PyTree[PyTree[base, "S"], "T"])
    elif form == "two-structures-late":
        # the same ambiguity, but the first leaf of the inner tree is accepted without its '?' axis ever being looked at (an int)
        with jaxtyped("context"):
            got = obs.verdict((7, a3, a4), PyTree[PyTree[Union[int, base], "S"], "T"])
    elif form == "two-structures-sibling":
        # ... and the inner structured PyTree carrying the '?' axis comes after a sibling structured PyTree that has been checked
        with jaxtyped("context"):
            got = obs.verdict((1, a3), PyTree[tuple[PyTree[int, "S"], PyTree[base, "R"]], "T"])
    elif form in ("prefix-structure", "suffix-structure", "composite-structure"):
        # exactly ONE structured PyTree encloses the axis, its structure is written in composite / prefix / suffix form: that is a
        # legitimate use, the check must answer (True here: the '?' axis may differ per leaf), not raise AnnotationError
        sname = {"prefix-structure": "T ...", "suffix-structure": "... T", "composite-structure": "S T"}[form]
        with jaxtyped("context"):
            setup = [obs.verdict((1, 2), PyTree[int, "T"]), obs.verdict(5, PyTree[int, "S"])]
            if setup != [dl.TRUE, dl.TRUE]:
                raise Violation("misuse", case, f"binding the structures T=(*,*) and S=* with PyTree[int, ...] checks gave {setup} (leftovers of an earlier '?' check?)")
            got = obs.verdict((a3, a4), PyTree[base, sname])
        ctx.note(["misuse", form, spec], True, classes=[f"structure-form-{form}"])
        if got != dl.TRUE:
            raise Violation("misuse", case, f"'?' axis under the single structured PyTree[{spec!r}, {sname!r}] (T=(*,*), S=*): {got} instead of True")
        v = obs.verdict(np.zeros((3,)), Shaped[np.ndarray, "?vf_probe"])
        if v != dl.ANNERR:
            raise Violation("label-leaked", case, f"after form {form}: bare '?' check gave {v}")
        return
    elif form == "decorated-no-structure":
        def f(x):
            pass

        f.__annotations__ = {"x": PyTree[base]}  # (this module uses postponed annotations; set the object explicitly)
        f = jaxtyped(typechecker=gc.checker(case["checker"]))(f)
        try:
            f((a3, a4))
            got = dl.TRUE
        except AnnotationError:
            got = dl.ANNERR
        except Exception as e:
            got = f"raised {type(e).__name__}"
    else:
        raise AssertionError(form)
    ctx.note(["misuse", form, spec], True, classes=[f"misuse-{form}"])
    if form in ("bare", "no-structure"):
        # the same on a thread that has never run a jaxtyping check before (its thread-local state is uninitialised)
        import threading

        box = []

        def fresh():
            with jaxtyped("context"):
                box.append(obs.verdict(a3 if form == "bare" else (a3, a4), base if form == "bare" else PyTree[base]))

        th = threading.Thread(target=fresh)
        th.start()
        th.join()
        if box != [dl.ANNERR]:
            raise Violation("misuse", case, f"misuse form {form} with spec {spec!r} on a fresh thread: {box} instead of AnnotationError")
    if got != dl.ANNERR:
        raise Violation("misuse", case, f"misuse form {form} with spec {spec!r}: {got} instead of AnnotationError")
    v = obs.verdict(np.zeros((3,)), Shaped[np.ndarray, "?vf_probe"])
    if v != dl.ANNERR:
        raise Violation("label-leaked", case, f"after misuse form {form}: bare '?' check gave {v}")


@st.composite
def q_spec(draw, sym_names=()):
    n = draw(st.integers(1, 3))
    qpos = draw(st.integers(0, n - 1))
    toks = []
    multi_used = False
    for i in range(n):
        if i == qpos:
            if not multi_used and draw(st.integers(0, 2)) == 0:
                toks.append(dl.Token(draw(st.sampled_from(["*?", "?*", "*#?"])), "name", draw(st.sampled_from(["v", "foo"]))))
                multi_used = True
            else:
                toks.append(dl.Token(draw(st.sampled_from(["?", "?", "#?", "?#"])), "name", draw(st.sampled_from(["foo", "a"]))))
        else:
            t = draw(gd.legal_token(allow_multi=not multi_used, allow_q=True, names=["foo", "a"], vnames=["v"], sym_names=sym_names))
            multi_used = multi_used or t.is_multi()
            toks.append(t)
    return toks


def _has_empty(d):
    if d[0] in ("leaf",):
        return False
    if d[0] == "none":
        return True
    cs = pt.children(d)
    return not cs or any(_has_empty(c) for c in cs)


@st.composite
def c16_case(draw):
    symplain = None
    if draw(st.integers(0, 3)) == 0:
        # a plain-axis parameter checked first, and symbolic axes over its name in the leaf spec: they always mean the plain axis,
        # whatever '?' axis of the same name the leaf has
        symplain = ["before", draw(st.sampled_from(["foo", "a"])), draw(st.sampled_from([2, 3, 5]))]
    toks = draw(q_spec(sym_names=[symplain[1]] if symplain else ()))
    meanings = [t.meaning() for t in toks]
    wrap = draw(st.sampled_from(WRAPS))
    allow = ("tuple", "list", "dict") if wrap in ("nested", "tuple", "optional", "ntfield", "union-pytree") else ("tuple", "list", "dict", "none")
    base = draw(gt.tree_desc(st.just(0), max_depth=3, max_leaves=5, allow=allow))
    if not pt.leaves(base):
        base = ("tuple", [("leaf", 0), ("leaf", 0)])
    if wrap == "union-pytree" and _has_empty(base):
        wrap = "plain"  # (an empty container would itself match PyTree[int] and count as a leaf)
    nl = len(pt.leaves(base))
    ntrees = draw(st.sampled_from([2, 2, 3, 1]))
    m = dl.MCtx()
    if symplain:
        m = dl.match([dl.Token("", "name", symplain[1]).meaning()], (symplain[2],), m).ctx
    trees = []
    int_positions = set()
    if wrap == "union":
        int_positions = {i for i in range(nl) if draw(st.integers(0, 3)) == 0}
    alias = draw(st.sampled_from([True, False, False]))
    alt_last = ntrees >= 2 and draw(st.integers(0, 3)) == 0
    alt_meanings = [t.meaning() for t in toggle_broadcast(toks)]
    for ti in range(ntrees):
        shapes = []
        cur_meanings = alt_meanings if (alt_last and ti == ntrees - 1) else meanings
        for i in range(nl):
            if i in int_positions:
                shapes.append("int")
                continue
            if wrap == "optional" and draw(st.integers(0, 3)) == 0:
                shapes.append("none")  # a None leaf at this position of this tree (other trees may have an array here)
                continue
            label = f"(Leaf {0 if wrap == 'nested' else i} in structure T) "
            prev = [s_ for s_ in shapes if s_ not in ("int", "none")]
            if alias and ti == 0 and prev and draw(st.integers(0, 3)) != 0:
                shp = tuple(prev[0])  # tied weights: later positions repeat the first leaf's shape
            else:
                shp, _ = draw(gd.shape_for(cur_meanings, m, mutate_prob=0.0, label=label))
                if alt_last and ti == 0 and shp and draw(st.integers(0, 2)) == 0:
                    shp = tuple(1 if draw(st.integers(0, 1)) == 0 else d for d in shp)  # size-1 axes: '#' matters later
            o = dl.match(cur_meanings, shp, m, label=label, in_structured=1)
            if o.ctx is not None:
                m = o.ctx
            shapes.append(list(shp))
        trees.append(gt.relabel(base, iter(shapes)))
    mutation = draw(st.sampled_from(["none", "swap", "change", "none", "add-leaf", "swap"] + (["change"] * 4 if alias else [])))
    if ntrees >= 2 and mutation != "none":
        k = draw(st.integers(1, ntrees - 1))
        lv = [lf[1] for lf in pt.leaves(trees[k])]
        arr_idx = [i for i, p in enumerate(lv) if p not in ("int", "none")]
        if mutation == "swap" and len(arr_idx) >= 2:
            i, j = draw(st.permutations(arr_idx))[:2]
            lv[i], lv[j] = lv[j], lv[i]
            trees[k] = gt.relabel(trees[k], iter(lv))
        elif mutation == "change" and arr_idx:
            i = arr_idx[draw(st.integers(0, len(arr_idx) - 1))]
            if lv[i]:
                pos = draw(st.integers(0, len(lv[i]) - 1))
                lv[i] = list(lv[i])
                lv[i][pos] = draw(st.sampled_from([s for s in gd.SIZES if s != lv[i][pos]]))
                trees[k] = gt.relabel(trees[k], iter(lv))
        elif mutation == "add-leaf":
            trees[k] = ("tuple", [trees[k], ("leaf", lv[arr_idx[0]] if arr_idx else [2])])
    plain = symplain
    if plain is None and draw(st.integers(0, 2)) == 0:
        plain = [draw(st.sampled_from(["before", "after"])), draw(st.sampled_from(["foo", "a"])), draw(st.sampled_from([2, 3, 5]))]
        vnames = sorted({t.base for t in toks if t.base_kind == "name" and "*" in t.mods})
        if vnames and draw(st.integers(0, 2)) != 0:
            # a variadic parameter of the same name as the per-leaf variadic axis: the two never interact
            plain = [draw(st.sampled_from(["after", "before"])), vnames[0], draw(st.lists(st.sampled_from([7, 2, 3, 1]), max_size=3)), draw(st.sampled_from(["*", "*#"]))]
    return {"alt_last": alt_last, "enum_keys": draw(st.integers(0, 2)) == 0,"tokens": [c01.tok_json(t) for t in toks], "wrap": wrap, "trees": [gt.to_json(t) for t in trees], "plain": plain, "mutation": mutation,
            "alias": alias}


def run(ctx):
    @given(c16_case())
    def cases(case):
        check_case(ctx, case)

    ctx.hyp(cases, max_examples=ctx.n(500, 3000))

    @given(st.fixed_dictionaries({
        "misuse": st.sampled_from(["bare", "no-structure", "two-structures", "decorated-no-structure", "two-structures-late", "two-structures-sibling", "prefix-structure", "suffix-structure", "composite-structure"]),
        "spec": st.sampled_from(["?foo", "*?foo", "a ?foo", "?a ?foo", "#?foo 3", "?foo ..."]),
        "checker": st.sampled_from(["typeguard", "beartype"]),
    }))
    def misuse(case):
        check_misuse(ctx, case)

    ctx.hyp(misuse, max_examples=ctx.n(40, 200))


def replay(case, clause, ctx):
    try:
        if "misuse" in case:
            check_misuse(ctx, case)
        else:
            case = dict(case)
            case.pop("checker", None)
            check_case(ctx, case)
    except Violation as v:
        return str(v)
    return None
