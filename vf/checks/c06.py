"""C06 -- threads never see each other's bindings or transient check state.

The harness owns the schedule (vf/sched.py: sys.settrace on every line of jaxtyping's own code, one
runnable thread at a time).  2..3 threads each run a generated workload of decorated calls (well and
ill typed), context blocks, top-level checks, array checks that pass / fail (rollback) and PyTree
checks with '?' axes over many leaves; annotation objects, axis names and structure names are shared
between the threads on purpose.  Schedules: drawn segments (thread, number of traced lines) followed by
a fine round-robin quantum (1..8 lines), so that a context switch lands inside the windows between
snapshot and restore, set and clear of the flatten flag / leaf label, push and pop.
Oracle: each thread's vector of (verdict | exception incl. the bindings listed in a TypeCheckError,
print_bindings() transcript after each step) equals the vector of the same workload run alone."""
from __future__ import annotations

import io
import sys
import threading
import warnings

import numpy as np
from hypothesis import given, strategies as st

import jaxtyping
from jaxtyping import AnnotationError, Float, Float64, Inexact, Num, PyTree, Shaped, TypeCheckError, jaxtyped
from vf import obs, sched
from vf.core import HarnessError, Violation
from vf.gen import calls as gc

ID = "C06"
LEVEL = "exploration"
SHARDS = {"quick": 4, "thorough": 16}
RULE = (
    "Hypothesis draws 2..3 workloads (2..5 blocks each; block = context block / decorated call with typeguard or beartype / ill-typed "
    "decorated call / top-level items / a block entered through one context-manager object created by the main thread; items = check(name,size), failing check after a tentative binding, PyTree['?k n','T'] over 2..6 "
    "leaves (matching or with one broken leaf), structure-less PyTree, PyTree nested in PyTree, bindings read); in a third of the cases the workers are started from inside a context of the spawning thread, in copies of its contextvars context and a schedule (0..10 segments of 1..80 traced "
    "lines, then round robin with quantum 1..8). Non-trivial = >=2 context switches landed while the pre-empted thread was inside a "
    "jaxtyping check / memo function (name of the interrupted frame); distinct by (workloads, schedule)."
)
ASSUMPTIONS = [
    "pre-emption granularity is one source line of jaxtyping; switches inside C extensions (numpy, jax tree_flatten internals) are not explored",
    "CPython with the GIL; free-threaded builds out of scope",
    "each workload is first run alone (also warming lazy imports) and that solo transcript is the oracle",
]

NAMES = ["a", "b", "p"]


class AnnSet:
    """The annotation objects (and decorated functions) a case uses, shared between its threads.  tag=None: the process-wide set;
    otherwise every axis carries a documentation name unique to the tag ('d7=a' means exactly 'a'), so the classes are new objects
    that no thread has checked against yet: whatever jaxtyping prepares lazily on first use happens inside the interleaving."""

    def __init__(self, tag=None):
        d = (lambda spec: spec) if tag is None else (lambda spec: " ".join(f"{m}d{tag}={b}" for m, b in ((("?", t[1:]) if t[0] == "?" else ("", t)) for t in spec.split())))
        # dtype-specific categories (the float64 arrays used throughout belong to all of them): the dtype side of a check is in play too
        self.ANN = {n: Float[np.ndarray, d(n)] for n in NAMES}
        self.ANN2 = Inexact[np.ndarray, d("a b")]
        self.ANN_FAIL = Num[np.ndarray, d("q1 q2 a a")]  # binds q1, q2 tentatively, then needs a == a
        self.SYM = Float[np.ndarray, d("q3 q3+1 2*q3")]  # symbolic axes over a name bound by the same check
        self.Q = Float64[np.ndarray, d("?k n")]
        self.PT_Q = PyTree[self.Q, "T"]
        self.PT_PLAIN = PyTree[Shaped[np.ndarray, d("m n")]]
        self.PT_NESTED = PyTree[PyTree[self.Q], "T"]  # the inner check runs as is_leaf of the outer flatten
        self.PT_NESTED_INT = PyTree[PyTree[int]]
        # value objects shared by all threads (read-only parameters handed to every worker): the same object checked against the same
        # annotation object by several threads at once
        self.SHARED_TREES = [[np.zeros((2, 3)), {"k": (np.zeros((4, 3)),)}], [np.zeros((2, 2)), {"k": (np.zeros((3, 2)), np.zeros((4, 2)))}],
                             [np.zeros((3, 3)), {"k": (np.zeros((3, 3)), np.zeros((2, 3)), np.zeros((2, 3)))}]]
        self.CTX = jaxtyped("context")  # one context-manager object, created by the main thread and entered by the workers
        self.FNS = {}
        ANN, ANN2 = self.ANN, self.ANN2
        with warnings.catch_warnings():
            warnings.simplefilter("ignore")
            for ck in ("typeguard", "beartype"):
                def raw(x, y, items, runner):
                    return runner(items, x)

                raw.__annotations__ = {"x": ANN["p"], "y": ANN2, "return": ANN["p"]}
                self.FNS[ck] = jaxtyped(typechecker=gc.checker(ck))(raw)


SHARED = None
_fresh_counter = [0]
_tl = threading.local()


class ThreadStdout(io.TextIOBase):
    """sys.stdout proxy routing writes to a per-thread buffer when one is set (print_bindings() prints)."""

    def __init__(self, real):
        self.real = real

    def write(self, s):
        buf = getattr(_tl, "buf", None)
        return (buf if buf is not None else self.real).write(s)

    def flush(self):
        self.real.flush()


def bindings_text():
    _tl.buf = io.StringIO()
    try:
        jaxtyping.print_bindings()
        return _tl.buf.getvalue().strip().replace("\n", ";")
    finally:
        _tl.buf = None


def run_items(items, out, A, in_ctx=False):
    for it in items:
        k = it[0]
        if k == "inner-ctx":
            # a context block nested in whatever encloses the items (a decorated call, another block)
            with jaxtyped("context"):
                run_items(it[1], out, A, True)
            out.append(f"inner-ctx-left|{bindings_text()}")
            continue
        if k == "check":
            v = obs.verdict(np.zeros((it[2],)), A.ANN[it[1]])
        elif k == "check-int":
            # the same shared annotation object, another dtype (int32 is in none of the categories used): False, nothing bound
            v = obs.verdict(np.zeros((it[2],), dtype="int32"), A.ANN[it[1]])
        elif k == "sym":
            v = obs.verdict(np.zeros((it[1], it[1] + 1, 2 * it[1] + it[2])), A.SYM)  # it[2] = 0: matches; 1: last axis off by one
        elif k == "check2":
            v = obs.verdict(np.zeros((it[1], it[2])), A.ANN2)
        elif k == "fail":
            v = obs.verdict(np.zeros((it[1], it[2], 3, 4)), A.ANN_FAIL)
        elif k == "pytree":
            tree = tuple(np.zeros((s, it[2])) for s in it[1])
            if it[3] is not None and len(tree) > it[3]:
                tree = tree[: it[3]] + (np.zeros((it[1][it[3]], it[2] + 1)),) + tree[it[3] + 1 :]
            v = obs.verdict([tree[0], {"k": tree[1:]}], A.PT_Q)
        elif k == "pytree-shared":
            # one shared tree object, then a fresh tree of ANOTHER structure against the same structured annotation (rejected once 'T' is bound)
            v = obs.verdict(A.SHARED_TREES[it[1]], A.PT_Q)
            out.append(f"{k}:{v}|{bindings_text()}")
            v = obs.verdict([np.zeros((2, it[2]))], A.PT_Q)
        elif k == "pytree-plain":
            v = obs.verdict([np.zeros((it[1], it[2])), (np.zeros((it[1], it[2])),)], A.PT_PLAIN)
        elif k == "pytree-nested":
            v = obs.verdict([np.zeros((it[1], it[2])), (np.zeros((it[1], it[2])), [np.zeros((it[1], it[2]))])], A.PT_NESTED)
        elif k == "pytree-nested-int":
            v = obs.verdict([1, (2, [3, it[1]])], A.PT_NESTED_INT)
        elif k == "q-outside":
            v = obs.verdict(np.zeros((3, 2)), A.Q)
        else:
            raise AssertionError(it)
        bt = bindings_text()
        out.append(f"{k}:{v}|{bt}")
        if k == "check" and in_ctx and v == "True" and f"{it[1]}={it[2]}" not in bt.split(";"):
            # absolute (not differential) invariant: inside a context an accepted check of a plain named axis leaves it bound
            out.append(f"!!inside a context, an accepted check of axis {it[1]} with size {it[2]} left the bindings {bt!r}")


def run_workload(blocks, A):
    """-> transcript (list of strings)"""
    out = []

    def runner(items, x):
        run_items(items, out, A, True)
        return x

    for b in blocks:
        kind = b[0]
        if kind == "ctx":
            with jaxtyped("context"):
                run_items(b[1], out, A, True)
        elif kind == "ctx-shared":
            with A.CTX:
                run_items(b[1], out, A, True)
        elif kind == "top":
            run_items(b[1], out, A)
        elif kind == "call":
            _, ck, psize, a, bb, items, ret_ok = b
            try:
                A.FNS[ck](np.zeros((psize,)), np.zeros((a, bb)), items, runner if ret_ok else (lambda items, x: (run_items(items, out, A, True), np.zeros((psize + 1,)))[1]))
                out.append("call:returned")
            except TypeCheckError as e:
                axes, structs = obs.parse_bindings(str(e))
                out.append(f"call:TypeCheckError:{str(e).splitlines()[0][:60]}|axes={sorted(axes.items())}|structs={sorted(structs)}")
            except AnnotationError:
                out.append("call:AnnotationError")
        elif kind == "call-bad":
            _, ck, psize, a, bb = b
            try:
                A.FNS[ck](np.zeros((psize,)), np.zeros((a, bb, 2)), [], runner)
                out.append("call-bad:returned")
            except TypeCheckError as e:
                axes, structs = obs.parse_bindings(str(e))
                out.append(f"call-bad:TypeCheckError|axes={sorted(axes.items())}")
        out.append(f"after-block:{bindings_text()}")
    return out


_KEEP_ALIVE = []  # suspended generators of finished threads (never finalised while checks are running)


def _dead_thread_prelude(forms, A):
    """Threads that END while one of their contexts is still open: a generator suspended at a `yield` inside `with jaxtyped("context")`
    that stays alive (a prefetching pipeline), or a context entered by hand.  Their bindings die with them; threads started
    afterwards (which the OS may give the same identifiers) are fresh."""
    import threading

    for form, size_ in forms:
        def producer():
            with jaxtyped("context"):
                assert isinstance(np.zeros((size_,)), A.ANN["a"]) and isinstance(np.zeros((size_, size_ + 1)), A.ANN2)
                yield "batch"

        def body():
            if form == "generator":
                g = producer()
                next(g)
                _KEEP_ALIVE.append(g)
            else:
                cm = jaxtyped("context")
                cm.__enter__()
                assert isinstance(np.zeros((size_,)), A.ANN["a"])
                _KEEP_ALIVE.append(cm)

        th = threading.Thread(target=body)
        th.start()
        th.join()


def check_case(ctx, case):
    global SHARED
    obs.reset_state()
    if SHARED is None:
        SHARED = AnnSet()
    if not isinstance(sys.stdout, ThreadStdout):
        sys.stdout = ThreadStdout(sys.stdout)
    workloads = case["workloads"]
    solo = [sched.run_solo(lambda w=w: run_workload(w, SHARED)) for w in workloads]
    solo2 = [sched.run_solo(lambda w=w: run_workload(w, SHARED)) for w in workloads]
    for i, tr in enumerate(solo):
        bad = [x for x in tr if isinstance(x, str) and x.startswith("!!")] if isinstance(tr, list) else []
        if bad:
            raise Violation("solo-binding", case, f"workload {i} run ALONE on a fresh thread: {bad[0][2:]}; workload = {workloads[i]}")
    if solo != solo2:
        raise HarnessError(f"solo runs are not reproducible: {solo} vs {solo2}")
    A = SHARED
    if case.get("fresh"):
        _fresh_counter[0] += 1
        A = AnnSet(_fresh_counter[0])
    fns = [(lambda w=w: run_workload(w, A)) for w in workloads]
    if case.get("dead_threads"):
        _dead_thread_prelude(case["dead_threads"], SHARED)
    if case.get("parent_context"):
        # the spawning (main) thread is itself inside a context with bindings; the workers run in copies of its
        # contextvars context; they must behave as alone, and the parent's bindings must be untouched afterwards
        with jaxtyped("context"):
            assert isinstance(np.zeros((5,)), SHARED.ANN["a"]) and isinstance(np.zeros((5, 6)), SHARED.ANN2)
            before = bindings_text()
            results, s = sched.run_interleaved(fns, [tuple(x) for x in case["segments"]], case["quantum"], copy_context=True, instructions=bool(case.get("instructions")))
            after = bindings_text()
        if before != after:
            raise Violation("parent-bindings-changed", case, f"the spawning thread's bindings were {before!r}, after the workers ran: {after!r}")
    else:
        results, s = sched.run_interleaved(fns, [tuple(x) for x in case["segments"]], case["quantum"], instructions=bool(case.get("instructions")))
    inside = sum(1 for _, fn in s.switches if fn in sched.INSIDE_CHECK)
    for i, (r, so) in enumerate(zip(results, solo)):
        if r is None or r == "deadlock":
            continue  # (this worker did not run to its end: the scheduler errors below say why; no verdict from it)
        if r != so:
            j = next((j for j, (x, y) in enumerate(zip(r, so)) if x != y), min(len(r), len(so))) if isinstance(r, list) else -1
            raise Violation(
                "thread-isolation", case,
                f"thread {i} of {len(workloads)}: step {j} interleaved = {r[j] if isinstance(r, list) and j < len(r) else r!r}, alone = {so[j] if j < len(so) else None!r}; "
                f"{len(s.switches)} context switches ({inside} inside a check), e.g. {s.switches[:6]}; workload = {workloads[i]}",
            )
    if s.errors:
        # (every thread that finished agrees with its solo run, yet the schedule could not be carried out: no verdict)
        raise HarnessError(f"scheduler: {s.errors}")
    # afterwards the main thread is untouched as well
    if obs.raw_bindings().strip() != "" or obs.verdict(np.zeros((3, 2)), Shaped[np.ndarray, "?k n"]) != "AnnotationError":
        raise Violation("main-thread-state", case, "after the threads finished, the main thread sees bindings or a leaf label")
    ctx.extra["context_switches"] = ctx.extra.get("context_switches", 0) + len(s.switches)
    ctx.extra["switches_inside_check"] = ctx.extra.get("switches_inside_check", 0) + inside
    ctx.note(case, inside >= 2, classes=(["after-threads-that-ended-inside-a-context"] if case.get("dead_threads") else []) + (["fresh-annotations"] if case.get("fresh") else []) + (["instruction-level-in-storage"] if case.get("instructions") else []) + [f"threads-{len(workloads)}", f"quantum-{case['quantum']}", f"switches-{min(len(s.switches) // 50, 10) * 50}+", f"inside-{min(inside // 20, 10) * 20}+"],
             sample={"workloads": workloads, "segments": case["segments"], "quantum": case["quantum"], "switches": len(s.switches), "switches_inside_a_check": inside})


size = st.sampled_from([2, 3, 4])
item_st = st.one_of(
    st.tuples(st.just("check"), st.sampled_from(NAMES), size),
    st.tuples(st.just("pytree"), st.lists(size, min_size=2, max_size=6), size, st.one_of(st.none(), st.integers(0, 5))),
    st.tuples(st.just("fail"), size, size),
    st.tuples(st.just("check-int"), st.sampled_from(NAMES), size),
    st.tuples(st.just("sym"), size, st.sampled_from([0, 0, 1])),
    st.tuples(st.just("check2"), size, size),
    st.tuples(st.just("pytree"), st.lists(size, min_size=2, max_size=6), size, st.none()),
    st.tuples(st.just("pytree-plain"), size, size),
    st.tuples(st.just("pytree-nested"), size, size),
    st.tuples(st.just("pytree-nested-int"), size),
    st.tuples(st.just("q-outside")),
    st.tuples(st.just("pytree-shared"), st.sampled_from([0, 1, 2]), st.sampled_from([3, 2])),
)
items_st = st.lists(st.one_of(item_st, item_st, item_st, st.tuples(st.just("inner-ctx"), st.lists(item_st, min_size=1, max_size=2))), min_size=1, max_size=4)
block_st = st.one_of(
    st.tuples(st.just("ctx"), items_st),
    st.tuples(st.just("call"), st.sampled_from(["typeguard", "beartype"]), size, size, size, items_st, st.sampled_from([True, True, False])),
    st.tuples(st.just("call-bad"), st.sampled_from(["typeguard", "beartype"]), size, size, size),
    st.tuples(st.just("top"), items_st),
    st.tuples(st.just("ctx-shared"), items_st),
)
# focused workloads: every thread hammers ONE shared annotation object with arrays of alternating dtypes (whatever an annotation
# remembers between checks is shared between the threads)
dtype_race_block = st.tuples(st.sampled_from(["top", "ctx"]), st.lists(st.one_of(st.tuples(st.just("check"), st.just("a"), size), st.tuples(st.just("check-int"), st.just("a"), size),
                                                                                 st.tuples(st.just("sym"), size, st.sampled_from([0, 0, 1]))),
                                                                       min_size=5, max_size=9))
shared_tree_block = st.tuples(st.sampled_from(["ctx", "ctx", "top"]), st.lists(st.one_of(st.tuples(st.just("pytree-shared"), st.sampled_from([0, 0, 1, 2]), st.sampled_from([3, 2])),
                                                                                          st.tuples(st.just("pytree-shared"), st.sampled_from([0, 0, 1, 2]), st.sampled_from([3, 2])),
                                                                                          st.tuples(st.just("check"), st.just("a"), size)),
                                                                                min_size=1, max_size=3))
case_st = st.fixed_dictionaries({
    "workloads": st.one_of(st.lists(st.lists(block_st, min_size=2, max_size=5), min_size=2, max_size=3),
                           st.lists(st.lists(block_st, min_size=2, max_size=5), min_size=2, max_size=3),
                           st.lists(st.lists(block_st, min_size=2, max_size=5), min_size=2, max_size=3),
                           st.lists(st.lists(dtype_race_block, min_size=1, max_size=2), min_size=2, max_size=3),
                           st.lists(st.lists(shared_tree_block, min_size=1, max_size=3), min_size=2, max_size=3)),
    "segments": st.lists(st.tuples(st.integers(0, 2), st.sampled_from([1, 2, 3, 5, 8, 13, 21, 40, 80])), max_size=10),
    "quantum": st.sampled_from([1, 2, 3, 5, 8, 1, 2]),
    "parent_context": st.sampled_from([False, False, True]),
    "fresh": st.sampled_from([False, True, False]),
    "instructions": st.sampled_from([True, False]),
    "dead_threads": st.one_of(st.just([]), st.just([]), st.lists(st.tuples(st.sampled_from(["generator", "enter"]), st.sampled_from([5, 6, 7])), min_size=1, max_size=3)),
})


def to_lists(x):
    return [to_lists(y) for y in x] if isinstance(x, (list, tuple)) else x


def run(ctx):
    @given(case_st)
    def cases(case):
        check_case(ctx, {"workloads": to_lists(case["workloads"]), "segments": to_lists(case["segments"]), "quantum": case["quantum"],
                         "parent_context": case["parent_context"], "fresh": case["fresh"], "instructions": case["instructions"],
                         "dead_threads": to_lists(case["dead_threads"])})

    ctx.hyp(cases, max_examples=ctx.n(60, 600))


def replay(case, clause, ctx):
    try:
        check_case(ctx, case)
    except Violation as v:
        return str(v)
    return None
