"""C02 -- a checked call is accepted iff one consistent axis assignment exists; the verdict does not
depend on parameter order, call style, typechecker or decorator spelling.

Oracle (a) reference: the order-free exists-assignment solver of vf.models.dimlang (cross-checked
against the sequential matcher: a disagreement between the two models is a harness error);
(b) differential/metamorphic: the verdict vector over {permutation x call style x checker x
spelling x function/dataclass} must be constant."""
from __future__ import annotations

import numpy as np
from hypothesis import given, strategies as st

from jaxtyping import AnnotationError, TypeCheckError
from vf.core import HarnessError, Violation
from vf.gen import calls as gc
from vf.models import dimlang as dl

ID = "C02"
LEVEL = "exploration"
SHARDS = {"quick": 4, "thorough": 16}
RULE = (
    "Hypothesis draws signatures of 1..5 array-annotated parameters (+ return annotation half of the time) from the dim "
    "grammar (symbolic axes only over names plainly bound by an earlier parameter), shapes derived against an evolving model "
    "context and then 0-2 single-axis changes applied to a non-first argument (cross-argument conflicts); every case is executed for the identity order and up to 2 other valid permutations x "
    "{positional, keyword, mixed; with a positional-only prefix / keyword-only suffix of 0..3 parameters, defaults on some keyword-only parameters, optionally a leading int parameter named like an axis} x {typeguard, beartype} x {jaxtyped(typechecker=..), old jaxtyped(checker(f))} plus a jaxtyped "
    "dataclass per checker (flat; split into a jaxtyped base class and a jaxtyped subclass; a plain subclass of an undecorated dataclass). Non-trivial = >=2 parameters sharing a name or *name AND (unsatisfiable only through a cross-argument "
    "conflict -- every argument alone matches -- or satisfiable with a '#'/variadic name shared between arguments); distinct by "
    "(specs, shapes)."
)
ASSUMPTIONS = [
    "order-free solver and sequential matcher in vf/models/dimlang.py (cross-checked on every case)",
    "typeguard 2.13.3 and beartype 0.22.9 as installed; NumPy arrays, Shaped category (dtype is C03's subject)",
    "old-style spelling: any exception counts as rejection (the checker's own error class)",
]

CHECKERS = ["typeguard", "beartype"]
SPELLINGS = ["new", "old"]
STYLES = ["pos", "kw", "mixed"]


def classify(case):
    """(shares, alone_ok, bcast_or_var_shared)"""
    names = {}
    for idx, e in enumerate(case["params"] + ([case["ret"]] if case["ret"] else [])):
        for m in gc.meanings_of(e):
            if m[0] in ("named", "namedvar"):
                names.setdefault((m[0], m[1]), []).append((idx, m[2]))
    shared = {k: v for k, v in names.items() if len({i for i, _ in v}) >= 2}
    alone = all(
        dl.satisfiable([(gc.meanings_of(e), e["shape"])]) is not False
        for e in case["params"] + ([case["ret"]] if case["ret"] else [])
    )
    inter = any(k[0] == "namedvar" or any(b for _, b in v) for k, v in shared.items())
    return bool(shared), alone, inter


def run_variant(case, order, ck, sp, style, fn_cache):
    # parameter kinds by position (positional-only prefix / keyword-only suffix), a function of the case
    n = len(order)
    kinds = gc.position_kinds(n, case.get("npo", 0), case.get("nko", 0))
    key = (tuple(order), ck, sp)
    if key not in fn_cache:
        fn_cache[key] = gc.build_function(case, order, ck, sp, kinds=kinds)
    fn, ns, _ = fn_cache[key]
    ns["__ret"][0] = gc.make_array(case["ret"]["shape"], bool(case.get("npint_shapes"))) if case["ret"] else None
    args, kwargs = gc.call_args(case, order, style, kinds=kinds)
    try:
        fn(*args, **kwargs)
        return "ok"
    except AnnotationError as e:
        return f"AnnotationError: {e}"[:200]
    except TypeCheckError:
        return "TypeCheckError"
    except Exception as e:
        return f"raise:{type(e).__name__}"


def check_case(ctx, case, extra_orders):
    from vf import obs

    obs.reset_state()
    ref = gc.reference_verdict(case)
    if ref is None:
        ctx.classes["skipped-symbolic-unbound"] += 1
        return
    seq = gc.sequential_verdict(case)
    if seq is not None and seq != ref:
        raise HarnessError(f"reference models disagree on {case}: solver={ref} sequential={seq}")
    orders = [list(range(len(case["params"])))] + [o for o in extra_orders if o != list(range(len(case["params"])))]
    shares, alone, inter = classify(case)
    nontrivial = len(case["params"]) >= 2 and shares and ((not ref and alone) or (ref and inter))
    vec = {}
    fn_cache = {}
    for order in orders:
        for ck in CHECKERS:
            for sp in SPELLINGS:
                for style in STYLES:
                    got = run_variant(case, order, ck, sp, style, fn_cache)
                    vec[(tuple(order), ck, sp, style)] = got
                    ok = got == "ok"
                    if got.startswith("AnnotationError"):
                        raise Violation("annotation-error", dict(case, variant=[order, ck, sp, style]), f"AnnotationError in the C02 domain: {got}")
                    if ok != ref:
                        raise Violation(
                            "reference", dict(case, variant=[order, ck, sp, style]),
                            f"call {'accepted' if ok else 'rejected (' + got + ')'} but a consistent assignment {'exists' if ref else 'does not exist'}: "
                            f"params={[(p['name'], gc.spec_of(p), p['shape']) for p in case['params']]} ret={(gc.spec_of(case['ret']), case['ret']['shape']) if case['ret'] else None} "
                            f"order={order} checker={ck} spelling={sp} style={style}",
                        )
                    if sp == "new" and not ok and got != "TypeCheckError":
                        raise Violation("error-class", dict(case, variant=[order, ck, sp, style]), f"new-style rejection raised {got}, not TypeCheckError")
    # dataclass __init__: parameters only
    refp = dl.satisfiable([(gc.meanings_of(p), p["shape"]) for p in case["params"]])
    if refp is not None:
        for ck in CHECKERS:
            variants = [(o, None) for o in orders[:2]]
            if len(case["params"]) >= 2:
                variants.append((orders[0], 1 + (len(vec) % (len(case["params"]) - 1))))  # base class + subclass
            variants.append((orders[0], "plain-subclass"))
            variants.append((orders[0], "init-false" + ["", "+frozen", "+slots", "+frozen+slots"][len(vec) % 4]))
            for order, split in variants:
                if isinstance(split, str) and split.startswith("init-false"):
                    D = gc.build_init_false_dataclass(case, order, ck, tuple(o for o in split.split("+")[1:]))
                else:
                    D = gc.build_plain_subclass_dataclass(case, order, ck) if split == "plain-subclass" else gc.build_dataclass(case, order, ck, split)
                for style in ("pos", "kw"):
                    args, kwargs = gc.call_args(case, order, style, with_int=False)
                    try:
                        D(*args, **kwargs)
                        got = "ok"
                    except TypeCheckError:
                        got = "TypeCheckError"
                    except Exception as e:
                        got = f"raise:{type(e).__name__}"
                    vec[(tuple(order), ck, f"dataclass{'' if split is None else '-inherit' + str(split)}", style)] = got
                    if (got == "ok") != refp or (got != "ok" and got != "TypeCheckError"):
                        raise Violation("dataclass", dict(case, variant=[order, ck, "dataclass", style]),
                                        f"dataclass{'' if split is None else (' (' + split + ')' if isinstance(split, str) else ' (jaxtyped base with ' + str(split) + ' fields + jaxtyped subclass)')} __init__ {got} but reference says {'accept' if refp else 'reject'}: {[(p['name'], gc.spec_of(p), p['shape']) for p in case['params']]}")
    ctx.extra["variants_executed"] = ctx.extra.get("variants_executed", 0) + len(vec)
    ctx.note(
        [[(gc.spec_of(p), p["shape"]) for p in case["params"]], (gc.spec_of(case["ret"]), case["ret"]["shape"]) if case["ret"] else None],
        nontrivial,
        classes=[f"ref-{ref}", f"nparams-{len(case['params'])}", "has-return" if case["ret"] else "no-return",
                 f"orders-{len(orders)}", "cross-arg-conflict" if (not ref and alone and shares) else "other"],
        sample={"params": [(p["name"], gc.spec_of(p), p["shape"]) for p in case["params"]],
                "ret": (gc.spec_of(case["ret"]), case["ret"]["shape"]) if case["ret"] else None, "accepted": ref, "orders": orders},
    )


def run(ctx):
    @given(st.data())
    def cases(data):
        case = data.draw(gc.call_case(), label="case")
        case["npo"] = data.draw(st.sampled_from([0, 0, 1, 2]))
        case["nko"] = data.draw(st.sampled_from([0, 0, 1, 2, 3]))
        n = len(case["params"])
        case["ko_defaults"] = [pos for pos in range(n) if data.draw(st.integers(0, 2)) == 0]  # applies to keyword-only positions only
        sym_names = sorted({nm for e in case["params"] + ([case["ret"]] if case["ret"] else []) for t in (gc.tok_from_json(j) for j in e["tokens"])
                            if t.base_kind == "sym" for nm in dl.expr_names(t.base) if nm.isascii()})
        if data.draw(st.integers(0, 3 if not sym_names else 1)) == 0 and case["npo"] == 0:
            # a plain int parameter named like an axis (preferably one that a symbolic expression mentions), with a value unlike any
            # bound size: it is not that axis
            case["int_param"] = [data.draw(st.sampled_from(sym_names + (["n", "a", "b"] if not sym_names else []))), 11]
        vo = gc.valid_orders(case)
        extra = []
        if len(vo) > 1:
            for _ in range(2):
                extra.append(vo[data.draw(st.integers(0, len(vo) - 1))])
        # (drawn last: the arrays report their sizes as NumPy integer scalars instead of ints)
        case["npint_shapes"] = data.draw(st.sampled_from([False, False, True]))
        check_case(ctx, case, extra)

    ctx.hyp(cases, max_examples=ctx.n(450, 2500))


def replay(case, clause, ctx):
    case = dict(case)
    variant = case.pop("variant", None)
    extra = [variant[0]] if variant else []
    try:
        check_case(ctx, case, extra)
    except Violation as v:
        return str(v)
    return None
