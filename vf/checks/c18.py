"""C18 -- cached bytecode never makes a module run with the wrong instrumentation.

Histories of *runs* over one temporary directory with bytecode writing ON.  Each run optionally edits
one source first (a different size, and either a later mtime or the SAME mtime), optionally cuts off the cached
files of one module (interrupted write; refusing to load them is acceptable, wrong instrumentation is not),
optionally runs like 'python -B' (caches read, nothing written), optionally imports everything while checking is
switched off (the modules are observed after switching it back on), installs 0..2 hooks (subset of {pa, pb, pkg, pkg.sub}; checker
spy a / spy b / None), imports the modules in a drawn order (pa imports pb inside its body, pkg imports
pkg.sub; 'pbad' has a syntax error and fails to import), uninstalls the hooks, imports 0..2 more modules plainly and records, per module: instrumented?, by which checker?, which source version do its
functions run?  Model: instrumented iff hooked in THIS run, by THIS run's (most recent matching)
checker, and the current version.  Quick tier: runs are simulated in one process (forest purged from
sys.modules, Typechecker.lookup cleared, caches invalidated) and a few histories use real subprocesses;
thorough tier: every run is a fresh interpreter."""
from __future__ import annotations

import importlib
import json
import os
import shutil
import subprocess
import sys
import tempfile
import threading

from hypothesis import given, strategies as st

from vf.core import HarnessError, Violation

ID = "C18"
LEVEL = "exploration"
SHARDS = {"quick": 4, "thorough": 16}
RULE = (
    "Hypothesis draws histories of 2..5 runs; run = (optional edit of one of 4 modules, 0..2 hooks each with a subset of names and a "
    "checker in {a, b, None}, import order). Quick: in-process simulated runs plus subprocess histories for a fraction; thorough: all "
    "runs are subprocesses. Non-trivial = history of >=2 runs in which some module changes status (hooked<->unhooked or checker a<->b) "
    "while a .pyc from an earlier run exists for it, or a nested import happened under a hooked parent; distinct by history."
)
ASSUMPTIONS = [
    "CPython 3.12 source-file loader and its (mtime, size) pyc validation; the harness controls mtimes explicitly",
    "in-process simulation clears jaxtyping._import_hook.Typechecker.lookup between runs to mimic a fresh interpreter",
]

MODS = ["pa", "pb", "pkg", "pkg.sub", "ph"]  # ph: a helper module that the typechecker module itself imports
BAD = "pbad"  # a module with a syntax error: importing it fails (also under a hook), nothing else may be affected
FILES = {"pa": "pa.py", "pb": "pb.py", "pkg": "pkg/__init__.py", "pkg.sub": "pkg/sub.py", "ph": "ph.py"}
DEPS = {"pa": ["pb"], "pkg": ["pkg.sub"]}

SPY_SRC = '''
import typeguard
log = []
def _mk(tag):
    def checker(fn, *a, **k):
        log.append((tag, fn.__module__, fn.__qualname__))
        return typeguard.typechecked(fn)
    return checker
a = _mk("a")
b = _mk("b")
import ph  # the typechecker package has imports of its own (at the bottom: a hooked ph is decorated with a / b)
'''


def source(mod, version, same_size=False):
    head = {"pa": "import pb\n", "pkg": "from . import sub\n"}.get(mod, "")
    # same_size: the byte length does not depend on the (single-digit) version, only the content changes
    pad = "# " + "x" * (40 if same_size else 3 * version) + "\n"
    return f"{head}{pad}VERSION = {version}\ndef f(x: int):\n    return {version}\n"


def write_source(d, mod, version, stamp, same_size=False):
    p = os.path.join(d, FILES[mod])
    os.makedirs(os.path.dirname(p), exist_ok=True)
    with open(p, "w") as f:
        f.write(source(mod, version, same_size))
    os.utime(p, (stamp, stamp))


RUNNER = r'''
import importlib, json, sys
spec = json.loads(sys.argv[1])
sys.dont_write_bytecode = bool(spec.get("dont_write"))
import os
if spec.get("disabled"):
    os.environ["JAXTYPING_DISABLE"] = "1"
sys.path.insert(0, spec["dir"])
import jaxtyping
from jaxtyping import install_import_hook
if spec.get("edit_during"):
    # the file is saved (by an editor, a sync tool) while this run is importing it: right after its bytes -- source or cached
    # bytecode -- were read.  This run executes what it read; the NEXT run must notice the newer file.
    import importlib._bootstrap_external as _be
    _ed = spec["edit_during"]
    _orig_get_data = _be.FileLoader.get_data
    def _get_data(self, path, _done=[]):
        data = _orig_get_data(self, path)
        if not _done and os.path.basename(path).split(".")[0] == _ed["stem"] and os.path.dirname(path).rstrip("/").replace("/__pycache__", "") == os.path.dirname(_ed["path"]).rstrip("/"):
            _done.append(1)
            with open(_ed["path"], "w") as f:
                f.write(_ed["source"])
            os.utime(_ed["path"], (_ed["stamp"], _ed["stamp"]))
        return data
    _be.FileLoader.get_data = _get_data
if spec.get("concurrent"):
    # while the bytes of one module are being read for its import, ANOTHER thread imports another module from start to finish
    import importlib._bootstrap_external as _be2, threading
    _cc = spec["concurrent"]
    _orig_get_data2 = _be2.FileLoader.get_data
    def _get_data2(self, path, _done=[]):
        if not _done and os.path.basename(path).split(".")[0] == _cc["stem"] and os.path.dirname(path).rstrip("/").replace("/__pycache__", "") == _cc["dir"].rstrip("/"):
            _done.append(1)
            th = threading.Thread(target=lambda: importlib.import_module(_cc["module"]))
            th.start(); th.join(120)
            if th.is_alive():
                print("VF18" + json.dumps({"error": "harness: concurrent import did not finish"})); os._exit(0)
        return _orig_get_data2(self, path)
    _be2.FileLoader.get_data = _get_data2
if not spec.get("lazy_spy"):
    import vf_spy18   # otherwise the typechecker module is first imported when the first hooked function is decorated
mgrs = []
for names, checker in spec["hooks"]:
    mgrs.append(install_import_hook(names, None if checker == "none" else "vf_spy18." + checker))
for m in spec["order"]:
    try:
        importlib.import_module(m)
    except SyntaxError:
        if m != "pbad":
            raise
if spec.get("reload") and spec["reload"]["module"] in sys.modules:
    # edit-and-reload while the hooks of this run are still installed (autoreload, a notebook workflow)
    _rl = spec["reload"]
    with open(_rl["path"], "w") as f:
        f.write(_rl["source"])
    os.utime(_rl["path"], (_rl["stamp"], _rl["stamp"]))
    importlib.reload(sys.modules[_rl["module"]])
for m in mgrs:
    m.uninstall()
for m in spec.get("after", []):
    importlib.import_module(m)
jaxtyping.config.update("jaxtyping_disable", False)   # observe with checking on: the switch is read per call
out = {}
spy = sys.modules.get("vf_spy18")
for name in ["pa", "pb", "pkg", "pkg.sub", "ph"]:
    mod = sys.modules.get(name)
    if mod is None:
        continue
    tags = sorted({t for (t, mm, q) in (spy.log if spy is not None else []) if mm == name})
    try:
        mod.f("not-an-int"); raises = False
    except jaxtyping.TypeCheckError:
        raises = True
    out[name] = {"import": "jaxtyping" in vars(mod), "wrapped": hasattr(mod.f, "__wrapped__"), "tags": tags, "raises": raises, "version": mod.f(1), "const": mod.VERSION}
print("VF18" + json.dumps(out))
'''


def classify(o):
    if not o["import"] and not o["wrapped"] and not o["tags"] and not o["raises"]:
        return None
    if o["import"] and o["wrapped"] and len(o["tags"]) == 1 and o["raises"]:
        return o["tags"][0]
    if o["import"] and o["wrapped"] and not o["tags"] and not o["raises"]:
        return "none"
    return f"inconsistent{o}"


def run_subprocess(d, run):
    env = dict(os.environ)
    env.pop("PYTHONDONTWRITEBYTECODE", None)
    env.pop("SOURCE_DATE_EPOCH", None)
    if run.get("source_date_epoch"):
        env["SOURCE_DATE_EPOCH"] = run["source_date_epoch"]  # reproducible-build environments export it; it changes nothing here
    r = subprocess.run([sys.executable, "-W", "ignore", "-c", RUNNER, json.dumps({"dir": d, "hooks": run["hooks"], "order": run["order"], "after": run.get("after", []), "dont_write": run.get("dont_write", False), "disabled": run.get("disabled", False), "lazy_spy": run.get("lazy_spy", False), "edit_during": run.get("_edit_during"), "concurrent": run.get("_concurrent"), "reload": run.get("_reload")})],
                       capture_output=True, text=True, env=env, timeout=300)
    line = [l for l in r.stdout.splitlines() if l.startswith("VF18")]
    if not line:
        return {"error": (r.stderr or r.stdout)[-600:]}
    return json.loads(line[0][4:])


def run_inprocess(d, run):
    import jaxtyping
    from jaxtyping import install_import_hook
    from jaxtyping._import_hook import Typechecker, _JaxtypingFinder

    for name in list(sys.modules):
        if name.split(".")[0] in ("pa", "pb", "pkg", "vf_spy18", "pbad", "ph"):
            del sys.modules[name]
    sys.meta_path[:] = [f for f in sys.meta_path if not isinstance(f, _JaxtypingFinder)]
    Typechecker.lookup.clear()
    importlib.invalidate_caches()
    old_flag = sys.dont_write_bytecode
    old_sde = os.environ.pop("SOURCE_DATE_EPOCH", None)
    if run.get("source_date_epoch"):
        os.environ["SOURCE_DATE_EPOCH"] = run["source_date_epoch"]
    sys.dont_write_bytecode = bool(run.get("dont_write"))  # like python -B: nothing is written, caches are still read
    sys.path.insert(0, d)
    import importlib._bootstrap_external as _be

    _orig_get_data = _be.FileLoader.get_data
    ed = run.get("_edit_during")
    if ed:
        done = []

        def _get_data(self, path):
            data = _orig_get_data(self, path)
            if not done and os.path.basename(path).split(".")[0] == ed["stem"] and os.path.dirname(path).rstrip("/").replace("/__pycache__", "") == os.path.dirname(ed["path"]).rstrip("/"):
                done.append(1)
                with open(ed["path"], "w") as f:
                    f.write(ed["source"])
                os.utime(ed["path"], (ed["stamp"], ed["stamp"]))
            return data

        _be.FileLoader.get_data = _get_data
    cc = run.get("_concurrent")
    cc_error = []
    if cc and not ed:
        cc_done = []

        def _get_data_cc(self, path):
            if not cc_done and os.path.basename(path).split(".")[0] == cc["stem"] and os.path.dirname(path).rstrip("/").replace("/__pycache__", "") == cc["dir"].rstrip("/"):
                cc_done.append(1)
                th = threading.Thread(target=lambda: importlib.import_module(cc["module"]))
                th.start()
                th.join(120)
                if th.is_alive():
                    cc_error.append("harness: concurrent import did not finish")
            return _orig_get_data(self, path)

        _be.FileLoader.get_data = _get_data_cc
    try:
        if not run.get("lazy_spy"):
            try:
                import vf_spy18  # noqa: F401
            except BaseException as e:  # noqa: BLE001  (its helper module ph may be served from a wrong cache file)
                return {"error": f"importing the typechecker module: {type(e).__name__}: {e}"}

        # a run with checking switched off while the modules are imported (JAXTYPING_DISABLE=1 / config.update); the
        # modules are observed after switching back on: instrumentation does not depend on the switch, only calls do
        jaxtyping.config.update("jaxtyping_disable", bool(run.get("disabled")))
        mgrs = []
        for names, checker in run["hooks"]:
            mgrs.append(install_import_hook(names, None if checker == "none" else "vf_spy18." + checker))
        try:
            for m in run["order"]:
                try:
                    importlib.import_module(m)
                except SyntaxError:
                    if m != BAD:
                        raise
            rl = run.get("_reload")
            if rl and rl["module"] in sys.modules:
                with open(rl["path"], "w") as f:
                    f.write(rl["source"])
                os.utime(rl["path"], (rl["stamp"], rl["stamp"]))
                importlib.reload(sys.modules[rl["module"]])
        except BaseException as e:  # noqa: BLE001
            return {"error": f"{type(e).__name__}: {e}"}
        finally:
            for m in mgrs:
                m.uninstall()
        try:
            for m in run.get("after", []):
                importlib.import_module(m)  # imported after every hook of this run was uninstalled: plain
        except BaseException as e:  # noqa: BLE001
            return {"error": f"after-uninstall import: {type(e).__name__}: {e}"}
        jaxtyping.config.update("jaxtyping_disable", False)
        if cc_error:
            raise HarnessError(cc_error[0])
        out = {}
        spy = sys.modules.get("vf_spy18")
        for name in MODS:
            mod = sys.modules.get(name)
            if mod is None:
                continue
            tags = sorted({t for (t, mm, q) in (spy.log if spy is not None else []) if mm == name})
            try:
                mod.f("not-an-int")
                raises = False
            except jaxtyping.TypeCheckError:
                raises = True
            out[name] = {"import": "jaxtyping" in vars(mod), "wrapped": hasattr(mod.f, "__wrapped__"), "tags": tags, "raises": raises,
                         "version": mod.f(1), "const": mod.VERSION}
        return out
    finally:
        _be.FileLoader.get_data = _orig_get_data
        jaxtyping.config.update("jaxtyping_disable", False)
        sys.dont_write_bytecode = old_flag
        os.environ.pop("SOURCE_DATE_EPOCH", None)
        if old_sde is not None:
            os.environ["SOURCE_DATE_EPOCH"] = old_sde
        sys.path.remove(d)
        for name in list(sys.modules):
            if name.split(".")[0] in ("pa", "pb", "pkg", "vf_spy18", "ph"):
                del sys.modules[name]
        sys.meta_path[:] = [f for f in sys.meta_path if not isinstance(f, _JaxtypingFinder)]


def model_run(run, versions):
    loaded = {}
    spy_imported = [not run.get("lazy_spy")]
    if spy_imported[0]:
        loaded["ph"] = (None, versions["ph"])  # imported together with the typechecker module, before any hook of the run exists

    def imp(m):
        parts = m.split(".")
        for i in range(1, len(parts) + 1):
            mm = ".".join(parts[:i])
            if mm in loaded:
                continue
            st_ = None
            for names, checker in reversed(run["hooks"]):
                if any(mm == n or mm.startswith(n + ".") for n in names):
                    st_ = checker
                    break
            loaded[mm] = (st_, versions[mm])
            for dep in DEPS.get(mm, []):
                imp(dep)
            if st_ in ("a", "b") and not spy_imported[0]:
                # decorating mm's function calls the typechecker for the first time: its module is imported now (and imports ph)
                spy_imported[0] = True
                imp("ph")

    for m in run["order"]:
        if m != BAD:
            imp(m)
    after = run.get("after", [])
    run = dict(run, hooks=[])  # `imp` reads run["hooks"]: every hook of this run has been uninstalled by now
    for m in after:
        imp(m)
    return loaded


def check_history(ctx, hist, mode):
    d = real_dir = tempfile.mkdtemp(prefix="vf-c18-")
    if hist.get("symlinked"):
        # the directory on sys.path is a symbolic link to where the files really are (a versioned deployment, a mounted checkout)
        d = real_dir + "-ln"
        os.symlink(real_dir, d)
    try:
        with open(os.path.join(d, "vf_spy18.py"), "w") as f:
            f.write(SPY_SRC)
        versions = {m: 1 for m in MODS}
        stamp = 1_600_000_000
        for m in MODS:
            write_source(d, m, 1, stamp, bool(hist.get("same_size")))
        with open(os.path.join(d, "pbad.py"), "w") as f:
            f.write("def broken(:\n    pass\n")
        status_history = {m: [] for m in MODS}
        flags = set()
        ever_damaged = [False]  # a cut-off cache file stays on disk until that module is compiled again
        for ri, run in enumerate(hist["runs"]):
            if run.get("source_date_epoch"):
                flags.add("run-with-SOURCE_DATE_EPOCH")
            if run.get("edit"):
                m = run["edit"]
                versions[m] += 1
                same_size = bool(hist.get("same_size")) and versions[m] <= 9
                if not run.get("same_mtime") or same_size:
                    stamp += 100  # otherwise: same mtime, different size (same-second save, cp -p, rsync -t)
                write_source(d, m, versions[m], stamp, same_size)
            damaged = ever_damaged[0]
            if run.get("damage"):
                # an interrupted write: every cached file of that module is cut off after its 16-byte header + 8 bytes
                pdir = os.path.join(d, os.path.dirname(FILES[run["damage"]]), "__pycache__")
                stem = os.path.basename(FILES[run["damage"]])[:-3]
                if os.path.isdir(pdir):
                    for fn in os.listdir(pdir):
                        if fn.startswith(stem + "."):
                            fp = os.path.join(pdir, fn)
                            data = open(fp, "rb").read()
                            if len(data) > 40:
                                open(fp, "wb").write(data[:24])
                                damaged = ever_damaged[0] = True
                                flags.add("damaged-pyc")
            cmod = run.get("concurrent")
            m1 = run["order"][0]
            if cmod and not run.get("edit_during") and m1 not in (BAD, "ph") and cmod != m1 and (cmod.split(".")[0] != m1.split(".")[0]) and not (cmod == "pa" and m1 == "pb"):
                # while the first module of the run is being read, another thread imports `cmod` from start to finish; what is loaded, and how,
                # is the same as if it had been imported right after
                run = dict(run, order=[m1, cmod] + [x for x in run["order"][1:] if x != cmod],
                           _concurrent={"stem": os.path.basename(FILES[m1])[:-3], "dir": os.path.dirname(os.path.join(d, FILES[m1])), "module": cmod})
                flags.add("import-from-another-thread-meanwhile")
            exp = model_run(run, versions)
            during = run.get("edit_during")
            if during and during in exp:
                # saved while being imported (right after its bytes were read): this run still executes the old version
                same_size = bool(hist.get("same_size")) and versions[during] + 1 <= 9
                run = dict(run, _edit_during={"path": os.path.join(d, FILES[during]), "stem": os.path.basename(FILES[during])[:-3], "stamp": stamp + 100,
                                              "source": source(during, versions[during] + 1, same_size)})
            rmod = run.get("reload")
            reloaded = bool(rmod and not during and not run.get("_concurrent") and rmod in exp and rmod in run["order"] and rmod != "ph" and not run.get("damage"))
            if reloaded:
                same_size = bool(hist.get("same_size")) and versions[rmod] + 1 <= 9
                run = dict(run, _reload={"module": rmod, "path": os.path.join(d, FILES[rmod]), "stamp": stamp + 100, "source": source(rmod, versions[rmod] + 1, same_size)})
                exp = dict(exp)
                exp[rmod] = (exp[rmod][0], versions[rmod] + 1)  # after the reload the module runs the new source, instrumented as before
            got = run_subprocess(d, run) if mode == "subprocess" else run_inprocess(d, run)
            if reloaded:
                versions[rmod] += 1
                stamp += 100
                flags.add("edited-and-reloaded-under-the-same-hook")
            if during and during in exp:
                versions[during] += 1
                stamp += 100
                flags.add("edited-while-being-imported")
            if "error" in got and damaged and any(x in got["error"] for x in ("EOFError", "marshal", "bad marshal data", "ValueError")):
                # refusing to load a cut-off cache file is what CPython itself does; the history ends here
                flags.add("damaged-pyc-refused")
                break
            if "error" in got:
                raise Violation("run-failed", hist, f"run #{ri} {run} ({mode}) failed: {got['error']}")
            if set(got) ^ set(exp) == {"ph"}:
                # ph is imported by the typechecker module, which is imported when the first hooked function is decorated
                raise Violation("stale-instrumentation", hist,
                                f"run #{ri} of {hist['runs']} ({mode}): the typechecker module {'was' if 'ph' in got else 'was NOT'} imported (its helper module ph is "
                                f"{'loaded' if 'ph' in got else 'missing'}), but this run's configuration {'decorates no' if 'ph' not in exp else 'decorates a'} function with it")
            if set(got) != set(exp):
                raise HarnessError(f"loaded modules {sorted(got)} vs model {sorted(exp)} in run {run}")
            for m, (st_, ver) in exp.items():
                g = got[m]
                gst = classify(g)
                prev = status_history[m]
                if prev and prev[-1] != st_:
                    flags.add("status-change-with-existing-pyc")
                if m in ("pb", "pkg.sub") and any(p in exp and exp[p][0] is not None for p in ("pa", "pkg")):
                    flags.add("nested-import-under-hooked-parent")
                status_history[m].append(st_)
                where = f"run #{ri} of {hist['runs']} ({mode}), module {m}"
                if gst != st_:
                    raise Violation("stale-instrumentation", hist,
                                    f"{where}: runs {'plain' if gst is None else 'instrumented/' + str(gst)}, this run's configuration calls for "
                                    f"{'plain' if st_ is None else 'instrumented/' + str(st_)}")
                if during and m == during and g["version"] == g["const"] == ver + 1:
                    continue  # saved while being imported: whether this very run already sees the new version depends on what it read last
                if g["version"] != ver or g["const"] != ver:
                    raise Violation("stale-source", hist, f"{where}: executes source version {g['version']}/{g['const']}, current is {ver}")
        ctx.note([hist, mode], len(hist["runs"]) >= 2 and bool(flags - {"run-with-SOURCE_DATE_EPOCH"}), classes=sorted(flags) + (["path-entry-is-a-symlink"] if hist.get("symlinked") else []) + [f"mode-{mode}", f"runs-{len(hist['runs'])}"], sample={"runs": hist["runs"], "mode": mode})
    finally:
        if d != real_dir:
            try:
                os.unlink(d)
            except OSError:
                pass
        shutil.rmtree(real_dir, ignore_errors=True)


names_st = st.lists(st.sampled_from(MODS + [BAD]), min_size=1, max_size=3, unique=True)
hook_st = st.tuples(names_st, st.sampled_from(["a", "b", "none", "a"])).map(list)
run_st = st.fixed_dictionaries({
    "edit": st.sampled_from([None, None, "pa", "pb", "pkg", "pkg.sub", "ph"]),
    "same_mtime": st.sampled_from([False, False, True]),
    "damage": st.sampled_from([None, None, None, None, "pa", "pb", "pkg.sub"]),
    "dont_write": st.sampled_from([False, False, False, True]),
    "disabled": st.sampled_from([False, False, False, True]),
    "lazy_spy": st.sampled_from([True, False]),
    "edit_during": st.sampled_from([None, None, None, "pa", "pb", "pkg.sub", None, "ph"]),
    "hooks": st.lists(hook_st, min_size=0, max_size=2),
    "order": st.lists(st.sampled_from(MODS + [BAD]), min_size=1, max_size=4, unique=True),
    "after": st.lists(st.sampled_from(MODS), max_size=2, unique=True),
    "source_date_epoch": st.sampled_from([None, "315532800", None, None]),
    "concurrent": st.sampled_from([None, None, "pb", "pkg", "pa", None, "ph", "pkg.sub"]),
    "reload": st.sampled_from([None, None, "pa", "pb", None, "pkg.sub"]),
})
_free_hist_st = st.fixed_dictionaries({"runs": st.lists(run_st, min_size=2, max_size=5), "same_size": st.sampled_from([False, True, False]),
                                       "symlinked": st.sampled_from([False, True, False])})


@st.composite
def _template_hist(draw):
    """A module hooked and cached in run 1, edited before run 2 in a way that only ONE of (mtime, size) reveals, hooked again with the
    same checker in run 2 (so the same cache file is consulted); optional further free runs."""
    m = draw(st.sampled_from(["pa", "pb", "pkg.sub", "ph"]))
    ck = draw(st.sampled_from(["a", "b", "none"]))
    base = {"edit": None, "same_mtime": False, "damage": None, "dont_write": False, "disabled": False, "lazy_spy": draw(st.booleans()), "edit_during": None,
            "hooks": [[[m], ck]], "order": [m], "after": [], "source_date_epoch": draw(st.sampled_from(["315532800", None]))}
    same_size = draw(st.booleans())  # True: the size is kept and the mtime moves; False: the mtime is kept and the size changes
    second = dict(base, edit=m, same_mtime=not same_size)
    runs = [base, second] + draw(st.lists(run_st, max_size=2))
    return {"runs": runs, "same_size": same_size}


@st.composite
def _template_concurrent(draw):
    """Run 1: two modules hooked with DIFFERENT typecheckers, the second one imported by another thread while the first one is being
    read; run 2 hooks the second module with the first one's typechecker (or the other way round); optional further free runs."""
    m1, m2 = draw(st.sampled_from([("pb", "pkg.sub"), ("pa", "ph"), ("pkg.sub", "pb"), ("pb", "ph"), ("pa", "pkg.sub")]))
    c1, c2 = draw(st.sampled_from([("a", "b"), ("b", "a"), ("a", "none"), ("none", "a")]))
    base = {"edit": None, "same_mtime": False, "damage": None, "dont_write": False, "disabled": False, "lazy_spy": draw(st.booleans()), "edit_during": None,
            "hooks": [[[m1], c1], [[m2], c2]], "order": [m1], "after": [], "source_date_epoch": None, "concurrent": m2}
    second = dict(base, hooks=[[[draw(st.sampled_from([m2, m1]))], draw(st.sampled_from([c1, c2]))]], order=[m2, m1], concurrent=None)
    return {"runs": [base, second] + draw(st.lists(run_st, max_size=2)), "same_size": False}


@st.composite
def _template_damage(draw):
    """A module cached under a hook in run 1 (optionally also un-hooked before, so that a plain cache file exists), its cache files cut off
    before run 2 (an interrupted write), run 2 under the same hook, run 3 without any hook; optional further free runs."""
    m = draw(st.sampled_from(["pa", "pb", "pkg.sub"]))
    ck = draw(st.sampled_from(["a", "b", "none"]))
    base = {"edit": None, "same_mtime": False, "damage": None, "dont_write": False, "disabled": False, "lazy_spy": draw(st.booleans()), "edit_during": None,
            "hooks": [[[m], ck]], "order": [m], "after": [], "source_date_epoch": None, "concurrent": None, "reload": None}
    plain = dict(base, hooks=[])
    runs = ([plain] if draw(st.booleans()) else []) + [base, dict(base, damage=m), plain] + draw(st.lists(run_st, max_size=1))
    return {"runs": runs, "same_size": False, "symlinked": draw(st.sampled_from([False, False, True]))}


hist_st = st.one_of(_free_hist_st, _free_hist_st, _free_hist_st, _template_hist(), _template_concurrent(), _template_damage())


# ---- stack-budget arm --------------------------------------------------------------------------------------------------------------
# Whether the instrumenting pass can walk a deeply nested module depends on the interpreter's stack budget of THAT run, which is not part of
# the cache key.  Runs over one cache directory differ in sys.setrecursionlimit; a run may fail to import the module (RecursionError: nothing
# is loaded, nothing to compare), but a module that IS loaded under a hook must be the instrumented one with this run's typechecker.
DEEP_SPY = """
import typeguard
log = []
def _mk(tag):
    def checker(fn, *a, **k):
        log.append((tag, fn.__module__, fn.__qualname__))
        return typeguard.typechecked(fn)
    return checker
a = _mk("a")
b = _mk("b")
"""

DEEP_RUNNER = r"""
import json, sys
spec = json.loads(sys.argv[1])
sys.path.insert(0, spec["dir"])
import jaxtyping
from jaxtyping import install_import_hook
import vf_spy18d
if spec["checker"] != "plain":
    install_import_hook(["pdeep"], "vf_spy18d." + spec["checker"])
sys.setrecursionlimit(spec["limit"])
try:
    import pdeep
except RecursionError:
    sys.setrecursionlimit(100000)
    print("VF18" + json.dumps({"loaded": False})); sys.exit(0)
except Exception as e:
    sys.setrecursionlimit(100000)
    print("VF18" + json.dumps({"loaded": False, "exc": type(e).__name__ + ": " + str(e)[:200]})); sys.exit(0)
sys.setrecursionlimit(100000)
tags = sorted({t for (t, mm, q) in vf_spy18d.log if mm == "pdeep"})
try:
    pdeep.f("not-an-int"); raises = False
except jaxtyping.TypeCheckError:
    raises = True
print("VF18" + json.dumps({"loaded": True, "import": "jaxtyping" in vars(pdeep), "wrapped": hasattr(pdeep.f, "__wrapped__"), "tags": tags, "raises": raises, "g": pdeep.g(1)}))
"""


def deep_source(n):
    return ("def f(x: int):\n    return 1\ndef g(k):\n    if k == 0:\n        return 0\n"
            + "".join(f"    elif k == {i}:\n        return {i}\n" for i in range(1, n)))


def _deep_run(d, run):
    env = dict(os.environ)
    env.pop("PYTHONDONTWRITEBYTECODE", None)
    r = subprocess.run([sys.executable, "-W", "ignore", "-c", DEEP_RUNNER, json.dumps({"dir": d, "checker": run["checker"], "limit": run["limit"]})],
                       capture_output=True, text=True, env=env, timeout=300)
    line = [l for l in r.stdout.splitlines() if l.startswith("VF18")]
    if not line:
        return {"error": (r.stderr or r.stdout)[-600:]}
    return json.loads(line[0][4:])


def _deep_twin(d, run):
    d2 = tempfile.mkdtemp(prefix="vf-c18d2-")
    try:
        for fn in ("vf_spy18d.py", "pdeep.py"):
            shutil.copy2(os.path.join(d, fn), os.path.join(d2, fn))
        twin = _deep_run(d2, run)
    finally:
        shutil.rmtree(d2, ignore_errors=True)
    if "error" in twin:
        raise RuntimeError(f"C18 stack-budget arm: empty-cache twin of run {run} broke down: {twin['error']}")
    return twin


def check_deep(ctx, case):
    d = tempfile.mkdtemp(prefix="vf-c18d-")
    try:
        with open(os.path.join(d, "vf_spy18d.py"), "w") as f:
            f.write(DEEP_SPY)
        with open(os.path.join(d, "pdeep.py"), "w") as f:
            f.write(deep_source(case["depth"]))
        os.utime(os.path.join(d, "pdeep.py"), (1_600_000_000, 1_600_000_000))
        outcomes = []
        for ri, run in enumerate(case["deep"]):
            got = _deep_run(d, run)
            if "error" in got:
                raise RuntimeError(f"C18 stack-budget arm: run #{ri} {run} broke down: {got['error']}")
            outcomes.append(got.get("loaded"))
            if not got["loaded"]:
                if got.get("exc") and ri > 0:
                    # the import failed with something other than RecursionError: a violation iff the identical run over an empty cache loads the module
                    twin = _deep_twin(d, run)
                    if twin["loaded"]:
                        raise Violation("run-failed", case, f"stack-budget run #{ri} {run} over the cache left by runs {case['deep'][:ri]} (loaded: {outcomes[:ri]}): "
                                        f"importing pdeep fails with {got['exc']}; the same run over an empty cache loads it")
                continue
            want = None if run["checker"] == "plain" else run["checker"]
            cls = classify(got)
            if cls != want:
                # differential confirmation: the identical run over an EMPTY cache.  A tree that treats a too-deep module uniformly (whatever it
                # does with it) is not history-dependent and is not reported by this arm.
                twin = _deep_twin(d, run)
                if not twin["loaded"] or classify(twin) == cls:
                    continue
                raise Violation("stale-instrumentation", case, f"stack-budget run #{ri} {run} over the cache left by runs {case['deep'][:ri]} (loaded: {outcomes[:ri]}): "
                                f"pdeep is {cls!r}, the current configuration calls for {want!r} and the same run over an empty cache gives {classify(twin)!r}")
        mixed = True in outcomes and False in outcomes
        ctx.note([case, "stack-budget"], mixed or (outcomes.count(True) >= 2 and len({r["checker"] for r in case["deep"]}) >= 2),
                 classes=["stack-budget-arm"] + (["stack-budget-some-run-could-not-import"] if mixed else []) + [f"stack-budget-loaded-{outcomes.count(True)}-of-{len(outcomes)}"],
                 sample={"depth": case["depth"], "runs": case["deep"], "loaded": outcomes})
    finally:
        shutil.rmtree(d, ignore_errors=True)


deep_run_st = st.fixed_dictionaries({"checker": st.sampled_from(["a", "b", "a", "plain"]), "limit": st.sampled_from([400, 5000, 1000, 250, 20000])})
deep_st = st.fixed_dictionaries({"depth": st.sampled_from([600, 300, 900, 150]), "deep": st.lists(deep_run_st, min_size=2, max_size=3)})


def run(ctx):
    if ctx.tier == "thorough":
        @given(hist_st)
        def sub_histories(hist):
            check_history(ctx, hist, "subprocess")

        ctx.hyp(sub_histories, max_examples=ctx.n(8, 60), shrink=False)

    @given(hist_st)
    def histories(hist):
        check_history(ctx, hist, "inprocess")

    ctx.hyp(histories, max_examples=ctx.n(120, 600))
    if ctx.tier == "quick":
        @given(hist_st)
        def sub_histories_q(hist):
            check_history(ctx, hist, "subprocess")

        ctx.hyp(sub_histories_q, max_examples=ctx.n(5, 5), shrink=False)

    @given(deep_st)
    def stack_budget(case):
        check_deep(ctx, case)

    ctx.hyp(stack_budget, max_examples=ctx.n(5, 30), shrink=False)


def replay(case, clause, ctx):
    if "deep" in case:
        try:
            check_deep(ctx, case)
        except Violation as v:
            return str(v)
        return None
    msgs = []
    for mode in ("inprocess", "subprocess"):
        try:
            check_history(ctx, case, mode)
        except Violation as v:
            msgs.append(str(v))
    return msgs[0] if msgs else None
