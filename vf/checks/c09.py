"""C09 -- PyTree structure names bind, compose, prefix and suffix exactly as documented.

Triples of trees (t bound to T, s bound to S, candidate x) with trivial leaves; x is *built from* t and
s (composition in both orders, t with every leaf expanded, t hanging under arbitrary upper levels) and
then structurally mutated 0..1 times, so accept/reject is balanced.  Forms: T, S T, T S, T ..., ... T,
S T ..., ... S T, plus composites over unbound names (AnnotationError) and first-use binding.
Oracle: vf.models.pytree (==, compose, is_prefix, is_suffix); the model itself is cross-checked against
jax.tree_util on every generated tree (disagreement = harness error).  Second engine: structure
*strings* (Hypothesis text) must build iff they are whitespace-separated identifiers optionally
preceded or followed by '...', else ValueError."""
from __future__ import annotations

import keyword
from typing import Any

import jax.tree_util as jtu
from hypothesis import given, strategies as st

from jaxtyping import PyTree, jaxtyped
from vf import obs
from vf.core import HarnessError, Violation
from vf.gen import trees as gt
from vf.models import dimlang as dl
from vf.models import pytree as pt
from vf.checks.c04 import struct_to_desc

ID = "C09"
LEVEL = "exploration"
SHARDS = {"quick": 4, "thorough": 16}
RULE = (
    "Engine 1: Hypothesis draws t, s (depth<=3, <=5 leaves, tuples/lists/dicts/None/empty/namedtuple/custom), x built as "
    "compose(s,t) | compose(t,s) | t with leaves expanded | upper tree over t | random, then 0..1 structural mutations (extra "
    "child, dict key renamed, list<->tuple, None<->leaf, leaf<->container); a history binds T and S (or leaves one unbound) and probes "
    "x under one of 7 forms twice. Non-trivial = composite/prefix/suffix form where the trees have >=2 levels and T occurs at >=2 depths "
    "or a None/empty/dict node is involved; distinct by (t, s, x, form). Engine 2: structure strings from text over identifiers, "
    "'...', digits, punctuation and whitespace."
)
ASSUMPTIONS = [
    "structure strings '...', '... T ...', the empty string, Python keywords as names and non-string structures are don't-care (totality only)",
    "a top-level None binds nothing (C08), so it is never used as the tree that is supposed to bind a name",
]

FORMS = ["S T", "T S", "T ...", "... T", "S T ...", "... S T", "T", "T T"]


def form_pieces(form):
    ps = form.split()
    prefix = ps[-1] == "..."
    suffix = ps[0] == "..."
    names = [p for p in ps if p != "..."]
    return names, prefix, suffix


def has_bad_leaf(d):
    return any(lf[1] == "bad" for lf in pt.leaves(d))


def model_check(structs, form, xdesc, leaf="any"):
    """-> (allowed, structs after)"""
    if xdesc[0] == "none":
        return {dl.TRUE}, structs
    if leaf in ("uptree", "uptree2"):
        # L = Union[str, PyTree[int]]: a str is a leaf, and so is every maximal subtree all of whose leaves are ints (PyTree[int]
        # matches it as a whole -- vacuously also None and empty containers)
        is_leaf = lambda d: (d[0] == "leaf" and d[1] == "str") or all(lf[1] != "str" for lf in pt.leaves(d))  # noqa: E731
        return _model_structure(structs, form, pt.structure(xdesc, is_leaf))
    if leaf in ("int", "pair") and has_bad_leaf(xdesc):
        # a leaf that is not an int: rejected (or AnnotationError if the structure part cannot be evaluated), nothing bound
        al, _ = model_check(structs, form, xdesc, "any")
        return ({dl.ANNERR} if al == {dl.ANNERR} else {dl.FALSE}), structs
    return _model_structure(structs, form, pt.structure(xdesc))


def _model_structure(structs, form, sx):
    names, prefix, suffix = form_pieces(form)
    if len(form.split()) == 1:
        n = names[0]
        if n in structs:
            return ({dl.TRUE} if structs[n] == sx else {dl.FALSE}), structs
        new = dict(structs)
        new[n] = sx
        return {dl.TRUE}, new
    if any(n not in structs for n in names):
        return {dl.ANNERR}, structs
    named = pt.compose_all([structs[n] for n in names])
    if prefix:
        ok = pt.is_prefix(named, sx)
    elif suffix:
        ok = pt.is_suffix(sx, named)
    else:
        ok = named == sx
    return ({dl.TRUE} if ok else {dl.FALSE}), structs


def selfcheck(desc):
    """vf.models.pytree vs jax.tree_util on one tree."""
    real = pt.build(desc, lambda p: "bad-leaf" if p in ("bad", "str") else 1)
    n = len(jtu.tree_leaves(real))
    if n != len(pt.leaves(desc)) or n != pt.n_leaves(pt.structure(desc)):
        raise HarnessError(f"PyTree model disagrees with jax.tree_util on the leaves of {desc}")
    return real


def selfcheck_pair(d1, d2):
    r1, r2 = pt.build(d1, lambda p: 1), pt.build(d2, lambda p: 1)
    if (jtu.tree_structure(r1) == jtu.tree_structure(r2)) != (pt.structure(d1) == pt.structure(d2)):
        raise HarnessError(f"PyTree model disagrees with jax.tree_util on structure equality of {d1} and {d2}")


def mutate(draw, d):
    """One structural mutation at a random node."""
    nodes = []

    def walk(x, path):
        nodes.append(path)
        if x[0] in ("tuple", "list", "nt"):
            for i, c in enumerate(x[1]):
                walk(c, path + [i])
        elif x[0] == "dict":
            for i, (_, c) in enumerate(x[1]):
                walk(c, path + [i])
        elif x[0] == "custom":
            for i, c in enumerate(x[2]):
                walk(c, path + [i])

    walk(d, [])
    path = nodes[draw(st.integers(0, len(nodes) - 1))]

    def change(x):
        k = x[0]
        choice = draw(st.integers(0, 3))
        if k == "leaf":
            return draw(st.sampled_from([("none",), ("tuple", []), ("tuple", [("leaf", 0)]), ("list", [("leaf", 0), ("leaf", 0)])]))
        if k == "none":
            return ("leaf", 0)
        if k in ("tuple", "list"):
            if choice == 0:
                return ("list" if k == "tuple" else "tuple", x[1])
            if choice == 1:
                return (k, list(x[1]) + [("leaf", 0)])
            if choice == 2 and x[1]:
                return (k, list(x[1])[:-1])
            return ("leaf", 0)
        if k == "dict":
            if choice == 0 and x[1]:
                return ("dict", [(x[1][0][0] + "_renamed", x[1][0][1])] + list(x[1][1:]))
            if choice == 1:
                return ("dict", list(x[1]) + [("extra" + "x" * len(x[1]), ("leaf", 0))])
            if choice == 2:
                return ("dict", list(reversed(x[1])))  # same structure: insertion order is irrelevant
            return ("tuple", [c for _, c in x[1]])
        if k == "nt":
            return ("tuple", x[1]) if len(x[1]) else ("leaf", 0)
        if k == "custom":
            return ("custom", "y" if x[1] == "x" else "x", x[2])
        return x

    def rebuild(x, p):
        if not p:
            return change(x)
        i = p[0]
        if x[0] in ("tuple", "list", "nt"):
            kids = list(x[1])
            kids[i] = rebuild(kids[i], p[1:])
            return (x[0], kids)
        if x[0] == "dict":
            kids = list(x[1])
            kids[i] = (kids[i][0], rebuild(kids[i][1], p[1:]))
            return ("dict", kids)
        kids = list(x[2])
        kids[i] = rebuild(kids[i], p[1:])
        return ("custom", x[1], kids)

    return rebuild(d, path)


def expand_leaves(draw, d):
    if d[0] == "leaf":
        return draw(gt.tree_desc(st.just(0), max_depth=2, max_leaves=3, allow=("tuple", "list", "dict", "none")))
    if d[0] == "none":
        return d
    if d[0] in ("tuple", "list", "nt"):
        return (d[0], [expand_leaves(draw, c) for c in d[1]])
    if d[0] == "dict":
        return ("dict", [(k, expand_leaves(draw, c)) for k, c in d[1]])
    return ("custom", d[1], [expand_leaves(draw, c) for c in d[2]])


def occurs_depths(xs, ts, depth=0, out=None):
    out = out if out is not None else set()
    if xs == ts:
        out.add(depth)
    for c in pt.s_children(xs):
        occurs_depths(c, ts, depth + 1, out)
    return out


def has_special(d):
    if d[0] in ("none", "dict"):
        return True
    if d[0] == "leaf":
        return False
    cs = pt.children(d)
    return not cs or any(has_special(c) for c in cs)


def check_case(ctx, case):
    obs.reset_state()
    t, s, x = (gt.from_json(case[k]) for k in ("t", "s", "x"))
    form = case["form"]
    from typing import Union

    L = {"int": int, "any": Any, "pair": tuple[int, int], "uptree": Union[str, PyTree[int]], "uptree2": Union[PyTree[int], str]}[case["leaf"]]
    rt, rs, rx = selfcheck(t), selfcheck(s), selfcheck(x)
    if case["leaf"] in ("uptree", "uptree2"):
        rt, rs, rx = (pt.build(d, lambda p: "s-leaf" if p == "str" else 1) for d in (t, s, x))
    if case["leaf"] == "pair":
        # every leaf is itself a container, (7, 8), that only the leaf type makes a leaf
        rt, rs, rx = (pt.build(d, lambda p: "bad-leaf" if p == "bad" else (7, 8)) for d in (t, s, x))
    selfcheck_pair(t, x)
    selfcheck_pair(s, x)
    names, prefix, suffix = form_pieces(form)
    # the structure names as spelled in the annotations: T / S, or other identifiers (a leading underscore, digits, non-ASCII)
    alias = {"plain": {"T": "T", "S": "S"}, "underscore": {"T": "_T", "S": "__s"}, "other": {"T": "Tree2", "S": "größe"}}[case.get("spelling", "plain")]

    def spell(f):
        return " ".join(alias.get(piece, piece) for piece in f.split())

    with jaxtyped("context"):
        structs = {}
        for nm, d, r, bind in (("T", t, rt, case["bind_t"]), ("S", s, rs, case["bind_s"])):
            if not bind:
                continue
            got = obs.verdict(r, PyTree[L, spell(nm)])
            al, structs = model_check(structs, nm, d, case['leaf'])
            if got not in al:
                raise Violation("bind", case, f"binding {nm} to {case[nm.lower()]}: {got}, reference {sorted(al)}")
        for rep in range(2):
            before = obs.bindings()
            got = obs.verdict(rx, PyTree[L, spell(form)])
            al, structs2 = model_check(structs, form, x, case['leaf'])
            descr = f"form {form!r} leaf={case['leaf']} T={'unbound' if 'T' not in structs else case['t']} S={'unbound' if 'S' not in structs else case['s']} x={case['x']}"
            if got not in al:
                raise Violation("verdict", case, f"isinstance(x, PyTree[L, {form!r}]) = {got}, reference {sorted(al)} ({'repeat' if rep else 'first'} probe); {descr}")
            after = obs.bindings()
            if got != dl.TRUE and after != before:
                raise Violation("rollback", case, f"{got} but bindings changed: {before[1]} -> {after[1]}; {descr}")
            structs = structs2
            if set(after[1]) != {alias.get(k, k) for k in structs}:
                raise Violation("structure-bindings", case, f"structure names listed {sorted(after[1])} != model {sorted(structs)}; {descr}")
    composite = len(form.split()) > 1
    tdepths = occurs_depths(pt.structure(x), pt.structure(t))
    nontrivial = composite and pt.depth(x) >= 2 and (len(tdepths) >= 2 or has_special(x) or has_special(t))
    ctx.note([case["t"], case["s"], case["x"], form, case["bind_t"], case["bind_s"]], nontrivial,
             classes=[f"form-{form}", f"got-{got}", f"build-{case['how']}", f"mut-{case['nmut']}", f"spelling-{case.get('spelling', 'plain')}"]
             + (["T-at-2-depths"] if len(tdepths) >= 2 else []) + (["special-node"] if has_special(x) else []),
             sample={"t": case["t"], "s": case["s"], "x": case["x"], "form": form, "verdict": got})


@st.composite
def c09_case(draw):
    allow = ("tuple", "list", "dict", "none", "nt", "custom")
    t = draw(gt.tree_desc(st.just(0), max_depth=2, max_leaves=4, allow=allow))
    s = draw(gt.tree_desc(st.just(0), max_depth=2, max_leaves=4, allow=allow))
    if t[0] == "none":
        t = ("tuple", [("leaf", 0)])
    if s[0] == "none":
        s = ("list", [("leaf", 0)])
    form = draw(st.sampled_from(FORMS))
    how = draw(st.sampled_from(["compose-st", "compose-ts", "expand-t", "upper-t", "compose-st", "upper-st", "random", "t"]))
    st_, ss = pt.structure(t), pt.structure(s)
    if how == "compose-st":
        x = struct_to_desc(pt.compose(ss, st_))
    elif how == "compose-ts":
        x = struct_to_desc(pt.compose(st_, ss))
    elif how == "expand-t":
        base = t if draw(st.booleans()) else struct_to_desc(pt.compose(ss, st_))
        x = expand_leaves(draw, base)
    elif how in ("upper-t", "upper-st"):
        u = draw(gt.tree_desc(st.just(0), max_depth=2, max_leaves=3, allow=("tuple", "list", "dict", "none")))
        inner = st_ if how == "upper-t" else pt.compose(ss, st_)
        x = struct_to_desc(pt.compose(pt.structure(u), inner))
    elif how == "t":
        x = t
    else:
        x = draw(gt.tree_desc(st.just(0), max_depth=3, max_leaves=6, allow=allow))
    nmut = draw(st.sampled_from([0, 1, 0, 0, 1, 2]))
    for _ in range(nmut):
        x = mutate(draw, x)
    leaf_kind = draw(st.sampled_from(["int", "pair", "any", "uptree", "uptree2", "int"]))
    if leaf_kind in ("uptree", "uptree2"):
        def strs(tree):
            nl = len(pt.leaves(tree))
            return gt.relabel(tree, iter(["str" if draw(st.integers(0, 2)) == 0 else 0 for _ in range(nl)])) if nl else tree

        t, s, x = strs(t), strs(s), strs(x)
    if leaf_kind == "pair" and draw(st.integers(0, 1)) == 0:
        # collapse one tuple-of-two-leaves of x into a single leaf: with L = tuple[int,int] that leaf is the object
        # (7, 8), which only the leaf type keeps from being traversed
        def collapse(d, done):
            if not done[0] and d[0] == "tuple" and len(d[1]) == 2 and all(c[0] == "leaf" for c in d[1]):
                done[0] = True
                return ("leaf", 0)
            if d[0] in ("tuple", "list", "nt"):
                return (d[0], [collapse(c, done) for c in d[1]])
            if d[0] == "dict":
                return ("dict", [(k, collapse(c, done)) for k, c in d[1]])
            if d[0] == "custom":
                return ("custom", d[1], [collapse(c, done) for c in d[2]])
            return d

        x = collapse(x, [False])
    # occasionally one leaf of t or x is not an int: with L=int that check must fail and bind nothing
    if leaf_kind not in ("uptree", "uptree2") and draw(st.integers(0, 7)) == 0:
        which = draw(st.sampled_from(["t", "x"]))
        tree = t if which == "t" else x
        nl = len(pt.leaves(tree))
        if nl:
            k = draw(st.integers(0, nl - 1))
            tree = gt.relabel(tree, iter(["bad" if i == k else 0 for i in range(nl)]))
            if which == "t":
                t = tree
            else:
                x = tree
    return {
        "t": gt.to_json(t), "s": gt.to_json(s), "x": gt.to_json(x), "form": form, "how": how, "nmut": nmut,
        "leaf": leaf_kind,
        "bind_t": draw(st.sampled_from([True, True, True, True, False])),
        "bind_s": draw(st.sampled_from([True, True, True, False])),
        "spelling": draw(st.sampled_from(["underscore", "plain", "plain", "other"])),
    }


IDENTS = ["T", "S", "foo", "bar_1", "_x", "Tree2"]


def expected_string(s: str):
    """True = must build, False = must raise ValueError, None = don't-care (build or ValueError)."""
    pieces = s.split()
    if not pieces:
        return None
    if pieces == ["..."] or (len(pieces) >= 2 and pieces[0] == "..." and pieces[-1] == "..."):
        return None
    for i, p in enumerate(pieces):
        if p == "..." and (i == 0 or i == len(pieces) - 1):
            continue
        if not p.isidentifier():
            return False
        if keyword.iskeyword(p):
            return None
    return True


def check_string(ctx, s):
    exp = expected_string(s)
    try:
        PyTree[int, s]
        got = "ok"
    except ValueError:
        got = "ValueError"
    except BaseException as e:  # noqa: BLE001
        got = f"{type(e).__name__}: {e}"
    ctx.note(["string", s], exp is not None and len(s.split()) >= 2, classes=[f"string-expected-{exp}", f"string-got-{got.split(':')[0]}"])
    if got not in ("ok", "ValueError"):
        raise Violation("string-totality", {"string": s}, f"PyTree[int, {s!r}] raised {got}")
    if exp is True and got != "ok":
        raise Violation("string-rejected", {"string": s}, f"valid structure string {s!r} rejected")
    if exp is False and got != "ValueError":
        raise Violation("string-accepted", {"string": s}, f"invalid structure string {s!r} accepted")


def run(ctx):
    @given(c09_case())
    def cases(case):
        check_case(ctx, case)

    ctx.hyp(cases, max_examples=ctx.n(1500, 6000))

    piece = st.one_of(st.sampled_from(IDENTS), st.sampled_from(IDENTS), st.just("..."), st.sampled_from(["3", "a-b", "T,", "S.T", "..", "....", "*", "?T", "T=", "(T)", "1T", "é", "T...", "...T", "......", "...T...", "S...", "T S"]),
                      st.lists(st.sampled_from(list("TS._ 1,-")), min_size=1, max_size=4).map("".join))  # (not st.text(alphabet=...): see gen/dims.py)
    ws = st.lists(st.sampled_from(list(" \t\n")), min_size=1, max_size=2).map("".join)

    @given(st.lists(piece, min_size=0, max_size=4), st.lists(ws, min_size=5, max_size=5), st.booleans(), st.booleans())
    def strings(pieces, seps, lead, trail):
        s = ""
        for i, p in enumerate(pieces):
            s += p + (seps[i] if i < len(pieces) - 1 else "")
        s = (seps[-1] if lead else "") + s + (seps[-2] if trail else "")
        check_string(ctx, s)

    ctx.hyp(strings, max_examples=ctx.n(1200, 6000))


def replay(case, clause, ctx):
    try:
        if "string" in case:
            check_string(ctx, case["string"])
        else:
            check_case(ctx, case)
    except Violation as v:
        return str(v)
    return None
