"""C07 -- on well-typed calls a decorated function is indistinguishable from the original.

Differential against the undecorated twin compiled from the same generated source: body ran exactly
once, every received argument *is* the object passed (also *args items, **kwargs values, defaults),
the result / raised exception *is* the body's object; __name__, __qualname__, __doc__, __module__,
inspect.signature and the descriptor kind are those of the original; decoration itself never raises.
Ill-typed binding call: body not run, TypeCheckError.  Non-binding call: ordinary TypeError (not a
TypeCheckError), body not run."""
from __future__ import annotations

import asyncio
import dataclasses
import inspect
import warnings

from hypothesis import given, strategies as st

from jaxtyping import TypeCheckError, jaxtyped
from vf.core import Violation
from vf.gen import calls as gc
from vf.gen import sigs as gs

ID = "C07"
LEVEL = "exploration"
SHARDS = {"quick": 4, "thorough": 16}
RULE = (
    "Hypothesis draws signatures with 0..2 positional-only, 0..2 positional-or-keyword, optional *args, 0..2 keyword-only, "
    "optional **kwargs parameters, defaults, names from a pool of the identifiers the wrapper generates or uses itself (T0, "
    "default0, ret0, fn0, bound, memos, args, kwargs, self, ...) and function names from the same pool; callable kind in "
    "{def, lambda (with and without __annotations__), async def (with/without return annotation)}; descriptor kind in {function, "
    "method, classmethod, staticmethod, property}; checker in {typeguard, beartype}; per signature: well-typed calls (3 call "
    "styles, with/without defaults, returning and raising bodies), one ill-typed call per annotated parameter, non-binding calls "
    "(missing / extra / duplicate). Non-trivial = signature with >=2 parameter kinds, or a colliding name, or a non-def callable, "
    "or a non-function descriptor; distinct by (source text, descriptor, checker)."
)
ASSUMPTIONS = [
    "annotations are int / str / 1-d array / none so that well- and ill-typedness is decided trivially by construction",
    "ill-typed values are never placed in *args/**kwargs under beartype (it samples one variadic item / ignores **kwargs by design)",
]

COLLIDING = set(gs.NAME_POOL) - {"x", "y", "z"}


@dataclasses.dataclass(frozen=True)
class FrozenError(Exception):
    """an exception whose instances reject attribute assignment (add_note raises FrozenInstanceError)"""

    code: str = "frozen"


class BodyRecorder:
    def __init__(self):
        self.calls = []
        self.result = gs.Obj("result")
        self.exc = None

    hook = None

    def __call__(self, received):
        self.calls.append(received)
        if self.hook is not None:
            self.hook()
        if self.exc is not None:
            raise self.exc
        return self.result


def drive(callable_kind, f, args, kwargs):
    """Call f; for coroutine functions also run the coroutine.  -> ('ok', value) | ('raise', exc)"""
    try:
        out = f(*args, **kwargs)
        if callable_kind == "async":
            if not inspect.iscoroutine(out):
                return "ok-noncoro", out
            try:
                out.send(None)
            except StopIteration as s:
                return "ok", s.value
            else:
                out.close()
                return "raise", RuntimeError("coroutine did not finish")
        return "ok", out
    except BaseException as e:  # noqa: BLE001
        return "raise", e


def same_received(got: dict, exp: dict, ns, params, offset=0):
    """identity comparison of received arguments; ('default', i) stands for the default object of parameter i."""
    if set(got) != set(exp):
        return f"received names {sorted(got)} != {sorted(exp)}"
    for k, v in exp.items():
        g = got[k]
        if isinstance(v, tuple) and len(v) == 2 and v[0] == "default":
            v = ns[f"__D{v[1] + offset}"]
        if isinstance(v, tuple):
            if not (isinstance(g, tuple) and len(g) == len(v) and all(a is b for a, b in zip(g, v))):
                return f"*{k}: {g!r} is not the passed tuple of objects {v!r}"
        elif isinstance(v, dict):
            if not (isinstance(g, dict) and list(g) == list(v) and all(g[x] is v[x] for x in v)):
                return f"**{k}: {g!r} is not the passed mapping {v!r}"
        elif g is not v:
            return f"argument {k}: received {g!r} (id {id(g)}) is not the passed object {v!r} (id {id(v)})"
    return None


def sig_equal(a, b):
    """inspect.Signature equality with identity on defaults/annotations (array defaults have no truth value)."""
    pa, pb = list(a.parameters.values()), list(b.parameters.values())
    if len(pa) != len(pb) or a.return_annotation is not b.return_annotation:
        return False
    return all(x.name == y.name and x.kind == y.kind and x.default is y.default and x.annotation is y.annotation for x, y in zip(pa, pb))


def check_case(ctx, case):
    from vf import obs

    obs.reset_state()
    params = case["params"]
    kind = case["callable"]
    desc = case["descriptor"]
    fname = case["fname"]
    ck = case["checker"]
    offset = 0
    full = list(params)
    if desc in ("method", "property"):
        full = [{"name": "self", "kind": "po" if any(p["kind"] == "po" for p in params) else "pk", "ann": "none", "has_default": False}] + full
        offset = 1
    elif desc == "classmethod":
        full = [{"name": "cls", "kind": "po" if any(p["kind"] == "po" for p in params) else "pk", "ann": "none", "has_default": False}] + full
        offset = 1
    rec = BodyRecorder()
    if case.get("ret_ann") == "iterator":
        rec.result = (i for i in range(3))  # a plain function annotated '-> Iterator[int]' that returns a generator object
    body_exc = {"ValueError": ValueError, "RecursionError": RecursionError, "MemoryError": MemoryError, "LookupError": LookupError,
                "FrozenError": FrozenError}[case.get("body_exc", "ValueError")]
    ns = {"__body": rec}
    src, ns = gs.render(full, fname, kind=kind, ret_ann=case.get("ret_ann"), ns=ns)
    try:
        raw = gs.compile_fn(src, ns, fname, postponed=bool(case.get("postponed", True)))
    except SyntaxError as e:
        raise AssertionError(f"harness generated invalid source: {src}") from e
    if kind == "lambda" and case.get("lambda_annotations"):
        raw.__annotations__ = {p["name"]: gs.ann_object_resolved(p["ann"], i) for i, p in enumerate(full) if gs.ann_object(p["ann"], i) is not None}
    if kind == "lambda":
        raw.__doc__ = "docstring of the original"
    via = case.get("via")
    passthrough = []
    if via == "wraps-option" and desc in ("function", "staticmethod") and kind != "async" and not any(p["kind"] == "vk" for p in params):
        # a functools.wraps decorator that takes an option of its own: the decorated callable's signature (inspect follows
        # __wrapped__) is the annotated one, the callable itself accepts one keyword more
        import functools

        inner = raw

        @functools.wraps(inner)
        def raw(*a, vf_option=None, **k):
            passthrough.append((a, k))
            return inner(*a, **k)
    elif via in ("wraps", "wraps-jaxtyped") and desc in ("function", "staticmethod") and kind != "async":
        # the decorated callable is a functools.wraps pass-through around the generated function: it sees exactly the
        # (args, kwargs) it is called with -- which must be the caller's, not a normalised form of them
        import functools

        inner = raw
        if via == "wraps-jaxtyped":
            # ... around a function that is itself already jaxtyped with the same typechecker (hand-written decorators below an
            # ordinary user decorator, the import hook or a class decorator on top): the outer level still is a decorated function
            # of its own -- an ill-typed call never reaches the user decorator
            with warnings.catch_warnings():
                warnings.simplefilter("ignore")
                inner = jaxtyped(typechecker=gc.checker(ck))(raw)

        @functools.wraps(inner)
        def raw(*a, **k):
            passthrough.append((a, k))
            return inner(*a, **k)
    elif via == "markcoro" and desc in ("function", "staticmethod") and kind == "async":
        # a coroutine function by declaration: a synchronous functools.wraps pass-through around the `async def` that hands the coroutine on
        # and is marked with inspect.markcoroutinefunction (what sync adapters do since Python 3.12)
        import functools

        inner = raw

        @functools.wraps(inner)
        def raw(*a, **k):
            passthrough.append((a, k))
            return inner(*a, **k)

        raw = inspect.markcoroutinefunction(raw)
    elif via == "asyncwrap" and desc == "function" and kind == "def":
        # a coroutine function that wraps a synchronous def (run-in-thread / asyncify adapters): calling it returns a
        # coroutine; the return annotation copied from the sync function describes the awaited value, not the coroutine
        import functools

        inner = raw

        @functools.wraps(inner)
        async def raw(*a, **k):
            passthrough.append((a, k))
            return inner(*a, **k)

        kind = "async"
    info = f"source={src!r} descriptor={desc} checker={ck} via={via} postponed_annotations={bool(case.get('postponed', True))}"
    wrap = {"function": lambda f: f, "method": lambda f: f, "classmethod": classmethod, "staticmethod": staticmethod, "property": property}[desc]
    tc = gc.checker(ck)
    try:
        with warnings.catch_warnings():
            warnings.simplefilter("ignore")
            dec_obj = jaxtyped(typechecker=tc)(wrap(raw))
    except BaseException as e:  # noqa: BLE001
        raise Violation("decoration-raised", case, f"decorating raised {type(e).__name__}: {e} {info}")
    raw_obj = wrap(raw)
    if type(dec_obj) is not type(raw_obj):
        raise Violation("descriptor-kind", case, f"decorated object is a {type(dec_obj).__name__}, original a {type(raw_obj).__name__} {info}")
    K = type("K", (), {fname: dec_obj})
    K0 = type("K", (), {fname: raw_obj})
    dec_fn = {"function": dec_obj, "staticmethod": dec_obj.__func__ if desc == "staticmethod" else None,
              "classmethod": dec_obj.__func__ if desc == "classmethod" else None,
              "property": dec_obj.fget if desc == "property" else None, "method": dec_obj}[desc]
    # ---- metadata
    for attr in ("__name__", "__qualname__", "__doc__", "__module__"):
        if getattr(dec_fn, attr, "<missing>") != getattr(raw, attr, "<missing>"):
            raise Violation("metadata", case, f"{attr}: {getattr(dec_fn, attr, '<missing>')!r} != original {getattr(raw, attr, '<missing>')!r} {info}")
    if not sig_equal(inspect.signature(dec_fn), inspect.signature(raw)):
        raise Violation("signature", case, f"inspect.signature {inspect.signature(dec_fn)} != original {inspect.signature(raw)} {info}")

    inst, inst0 = K(), K0()

    def target(which):
        if desc == "function":
            return (dec_obj if which else raw), None
        if desc == "method":
            return getattr(inst if which else inst0, fname), (inst if which else inst0)
        if desc == "classmethod":
            return getattr(K if which else K0, fname), (K if which else K0)
        if desc == "staticmethod":
            return getattr(K if which else K0, fname), None
        raise AssertionError

    n_calls = 0
    if desc == "function" and kind == "def" and not via:
        # the old double-decorator spelling jaxtyped(typechecker(f)): an exception raised by the body reaches the caller as the very
        # same object there too (the wrapper tries to attach a note with the bindings to it, which must never replace it)
        made = gs.make_args(params, style_seed=case["styles"][0])
        if made is not None:
            import warnings as _w

            with _w.catch_warnings():
                _w.simplefilter("ignore")
                old = jaxtyped(tc(gs.compile_fn(src, dict(ns), fname, postponed=bool(case.get("postponed", True)))))
            args, kwargs, _ = made
            rec.exc = body_exc("from body")
            rec.calls.clear()
            st_, val = drive(kind, old, list(args), dict(kwargs))
            if not (st_ == "raise" and val is rec.exc):
                raise Violation("exception-identity", case, f"old-style jaxtyped(typechecker(f)): body raised {rec.exc!r}, caller saw {st_} {val!r} args={args!r} kwargs={kwargs!r} {info}")
            rec.exc = None
            rec.calls.clear()
    if desc == "property":
        for raising in (False, True):
            rec.exc = body_exc("from body") if raising else None
            rec.calls.clear()
            try:
                out = getattr(inst, fname)
                st_, val = "ok", out
            except BaseException as e:  # noqa: BLE001
                st_, val = "raise", e
            n_calls += 1
            if raising:
                if not (st_ == "raise" and val is rec.exc):
                    raise Violation("exception-identity", case, f"property: body raised {rec.exc!r}, caller saw {st_} {val!r} {info}")
            else:
                if not (st_ == "ok" and val is rec.result):
                    raise Violation("result-identity", case, f"property: got {st_} {val!r} instead of the body's object {info}")
            if len(rec.calls) != 1 or rec.calls[0].get("self") is not inst:
                raise Violation("body-count", case, f"property: body ran {len(rec.calls)} times / wrong self {info}")
    else:
        # ---- well-typed calls
        for style_seed in case["styles"]:
            for omit in (False, True):
                made = gs.make_args(params, style_seed=style_seed, omit_defaults=omit, force_shadow=bool(case.get("force_shadow")))
                if made is None:
                    continue
                if omit and not case.get("force_shadow") and any(p["kind"] == "po" and p["has_default"] for p in params) and any(p["kind"] == "vk" for p in params):
                    ctx.excluded_known += 1  # the known-finding pattern was reachable here and was left out by construction
                args, kwargs, recv = made
                for raising in (False, True):
                    rec.exc = body_exc("from body") if raising else None
                    rec.calls.clear()
                    f, bound_first = target(True)
                    st_, val = drive(kind, f, list(args), dict(kwargs))
                    n_calls += 1
                    where = f"args={args!r} kwargs={kwargs!r} {info}"
                    if st_ == "ok-noncoro":
                        raise Violation("coroutine", case, f"calling the decorated coroutine function returned {val!r}, not a coroutine {where}")
                    if raising:
                        if not (st_ == "raise" and val is rec.exc):
                            raise Violation("exception-identity", case, f"body raised {rec.exc!r}, caller saw {st_} {val!r} {where}")
                    elif not (st_ == "ok" and val is rec.result):
                        raise Violation("result-identity", case, f"well-typed call gave {st_} {val!r}, expected the body's result object {where}")
                    if len(rec.calls) != 1:
                        raise Violation("body-count", case, f"body ran {len(rec.calls)} times {where}")
                    if passthrough:
                        pa, pk_ = passthrough[-1]
                        if not (len(pa) == len(args) and all(x is y for x, y in zip(pa, args)) and list(pk_) == list(kwargs) and all(pk_[q] is kwargs[q] for q in kwargs)):
                            raise Violation("call-shape", case, f"the wrapped callable was called with args={pa!r} kwargs={pk_!r}, the caller passed args={args!r} kwargs={kwargs!r}; {where}")
                        passthrough.clear()
                    exp = dict(recv)
                    if bound_first is not None:
                        exp["self" if desc == "method" else "cls"] = bound_first
                    err = same_received(rec.calls[0], exp, ns, params, offset)
                    if err:
                        raise Violation("argument-identity", case, f"{err} {where}")
        # ---- ill-typed calls: one per annotated, explicitly passable parameter
        rec.exc = None
        annotated = kind != "lambda" or case.get("lambda_annotations")
        for i, p in enumerate(params):
            if p["ann"] == "none" or not annotated:
                continue
            if p["kind"] in ("va", "vk") and (ck == "beartype" or True):
                continue
            for bad_none in ((False, True) if p["kind"] in ("po", "pk", "ko") and p["ann"] != "fwd" else (False,)):  # (None is fine for Optional[...])
                # the ill-typed value is an ordinary wrong object, or an explicit None (not acceptable for int / str / array parameters,
                # whatever their default is)
                made = gs.make_args(params, bad_at=i, style_seed=case["styles"][0], bad_none=bad_none)
                if made is None:
                    continue
                args, kwargs, _ = made
                rec.calls.clear()
                f, _ = target(True)
                st_, val = drive(kind, f, list(args), dict(kwargs))
                n_calls += 1
                where = f"ill-typed parameter {p['name']}{' (explicit None)' if bad_none else ''} args={args!r} kwargs={kwargs!r} {info}"
                if len(rec.calls) != 0:
                    raise Violation("body-ran-ill-typed", case, f"body ran although {where}")
                if passthrough:
                    raise Violation("body-ran-ill-typed", case, f"the decorated (functools.wraps pass-through) callable was entered although {where}")
                if via == "wraps-option" and passthrough is not None and "vf_option" not in kwargs and desc in ("function", "staticmethod") and kind != "async" and not any(q["kind"] == "vk" for q in params):
                    # the same ill-typed arguments plus the wrapper's own option: whichever error the caller gets, the body does not run
                    st2, val2 = drive(kind, f, list(args), dict(kwargs, vf_option=2))
                    n_calls += 1
                    if rec.calls or passthrough:
                        raise Violation("body-ran-ill-typed", case, f"body ran although (with the wrapper's own keyword vf_option=2 added) {where}")
                    if not (st2 == "raise" and isinstance(val2, TypeError)):
                        raise Violation("ill-typed-not-rejected", case, f"got {st2} {val2!r} (with the wrapper's own keyword vf_option=2 added) {where}")
                if not (st_ == "raise" and isinstance(val, TypeCheckError)):
                    raise Violation("ill-typed-not-rejected", case, f"got {st_} {val!r} {where}")
        # ---- non-binding calls
        made = gs.make_args(params, style_seed=0)
        if made is not None:
            args, kwargs, _ = made
            variants = []
            required_pos = [p for p in params if p["kind"] in ("po", "pk") and not p["has_default"]]
            if required_pos:
                variants.append(("missing", list(args[:-1]) if args else [], {k: v for k, v in kwargs.items() if k != required_pos[-1]["name"]} if not args else dict(kwargs)))
            if not any(p["kind"] == "va" for p in params):
                variants.append(("extra-positional", list(args) + [gs.Obj("extra")] * 3, dict(kwargs)))
            if not any(p["kind"] == "vk" for p in params):
                variants.append(("unknown-keyword", list(args), dict(kwargs, no_such_parameter_zz=1)))
            if any(p["kind"] in ("ko", "vk") for p in params) and not any(p["kind"] == "va" for p in params):
                # as many positionals as there are parameters, although some of them are keyword-only / **kwargs
                variants.append(("positional-for-keyword-only", [gs.Obj(f"pos{j}") for j in range(len(params))], {}))
            pk = [p for p in params if p["kind"] == "pk"]
            if pk and args and not any(p["kind"] == "vk" for p in params):
                # first positional-or-keyword parameter passed both ways
                npo = len([p for p in params if p["kind"] == "po"])
                if len(args) > npo:
                    variants.append(("duplicate", list(args), dict(kwargs, **{pk[0]["name"]: gs.good_value(pk[0]["ann"], 0)})))
            for vname, a2, k2 in variants:
                f0, _ = target(False)
                rec.calls.clear()
                st0, val0 = drive(kind, f0, list(a2), dict(k2))
                if not (st0 == "raise" and isinstance(val0, TypeError)) or rec.calls:
                    continue  # the original accepts this call: not a non-binding one
                rec.calls.clear()
                f, _ = target(True)
                st_, val = drive(kind, f, list(a2), dict(k2))
                n_calls += 1
                where = f"non-binding ({vname}) args={a2!r} kwargs={k2!r} {info}"
                if rec.calls:
                    raise Violation("body-ran-nonbinding", case, f"body ran for {where}")
                if not (st_ == "raise" and isinstance(val, TypeError) and not isinstance(val, TypeCheckError)):
                    raise Violation("nonbinding-error", case, f"expected the ordinary TypeError, got {st_} {val!r} {where}")
    # whatever happened above (incl. non-binding calls), no context may be left open: outside every context checks are stateless
    import numpy as _np
    from jaxtyping import Shaped as _Shaped

    if not (isinstance(_np.zeros(3), _Shaped[_np.ndarray, "vf_probe_axis"]) and isinstance(_np.zeros(4), _Shaped[_np.ndarray, "vf_probe_axis"])):
        raise Violation("context-left-open", case, f"after the calls of this case, top-level checks are no longer stateless {info}")
    kinds = {p["kind"] for p in params}
    nontrivial = len(kinds) >= 2 or bool(COLLIDING & ({p["name"] for p in params} | {fname})) or kind != "def" or desc != "function"
    ctx.extra["calls_executed"] = ctx.extra.get("calls_executed", 0) + n_calls
    ctx.note([src, desc, ck], nontrivial,
             classes=[f"callable-{kind}", f"descriptor-{desc}", f"checker-{ck}", f"nkinds-{len(kinds)}"] + [f"has-{k}" for k in sorted(kinds)],
             sample={"source": src, "descriptor": desc, "checker": ck, "calls": n_calls})


@st.composite
def c07_case(draw):
    kind, desc = draw(st.sampled_from([
        ("lambda", "function"), ("def", "function"), ("def", "method"), ("async", "function"), ("def", "classmethod"),
        ("def", "staticmethod"), ("lambda", "function"), ("def", "property"), ("async", "method"), ("def", "function"),
        ("async", "staticmethod"), ("def", "method"),
    ]))
    if desc == "property":
        params = []
    else:
        params = draw(gs.signature(max_each=draw(st.sampled_from([2, 2, 5, 2]))))  # now and then a long signature (11+ parameters)
        if desc in ("method", "classmethod"):
            params = [p for p in params if p["name"] not in ("self", "cls")]
    case = {
        "params": params,
        "callable": kind,
        "descriptor": desc,
        "fname": draw(st.sampled_from([n for n in gs.FN_NAMES if n not in {p["name"] for p in params} or True])),
        "checker": draw(st.sampled_from(["beartype", "typeguard"])),
        "styles": [0, draw(st.integers(1, 15)), 15, draw(st.integers(16, 31))],
        "ret_ann": draw(st.sampled_from(["obj", None, "iterator", None])) if kind != "async" else draw(st.sampled_from([None, "obj"])),
        "postponed": draw(st.sampled_from([False, True])),  # evaluated annotation objects / 'from __future__ import annotations'
        "body_exc": draw(st.sampled_from(["ValueError", "RecursionError", "ValueError", "MemoryError", "LookupError", "FrozenError"])),
        "lambda_annotations": draw(st.sampled_from([True, False])),
        "via": draw(st.sampled_from([None, "wraps", None, "asyncwrap", "wraps-jaxtyped", None, "wraps-option", "markcoro"])),
    }
    return case


def finding_key(case, clause):
    if case.get("force_shadow") and clause in ("result-identity", "exception-identity"):
        return "C07:bind-posonly-default-shadowed-by-kwarg"
    return None


def run(ctx):
    @given(c07_case())
    def cases(case):
        check_case(ctx, case)

    ctx.hyp(cases, max_examples=ctx.n(1200, 5000))


def replay(case, clause, ctx):
    try:
        check_case(ctx, case)
    except Violation as v:
        return str(v)
    return None
