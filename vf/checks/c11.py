"""C11 -- the import hook instruments exactly the named packages, only while installed.

A package forest with look-alike names (foo, foobar, foo_bar, fo, foo.bar, foo.barbaz, foo.bar.qux;
modules importing each other absolutely, relatively and from inside a function body) lives in a
temporary directory.  Hypothesis draws histories of install(names, checker) [with-block or handle],
uninstall / leave block (any order, several hooks active at once), import m, call-a-function-that-
imports, the pytest option, and (in fresh IPython processes) the %jaxtyping.typechecker magic.  Model: a module is instrumented iff, at its FIRST import, an active
hook has a name n with m == n or m.startswith(n + '.'), and then by the checker of the most recently
installed such hook.  Observation: spy typecheckers record which (module, qualname) they were asked to
wrap; instrumented modules carry the inserted 'import jaxtyping'; ill-typed calls raise iff a checking
spy wrapped the function."""
from __future__ import annotations

import gc
import importlib
import os
import shutil
import sys
import tempfile
import types

from hypothesis import given, strategies as st

import jaxtyping
from jaxtyping import install_import_hook
from jaxtyping._import_hook import _JaxtypingFinder
from vf import obs
from vf.core import HarnessError, Violation

ID = "C11"
LEVEL = "exploration"
SHARDS = {"quick": 4, "thorough": 16}
RULE = (
    "Hypothesis draws histories of 3..14 operations over a 9-module forest: install(1..3 names from a pool of 11 dotted names incl. "
    "string-prefix look-alikes and non-existent ones, checker in {spy a, spy b, None}, as with-block or handle), uninstall/leave (any "
    "active hook), import (any module), lazy (call a function whose body imports another module), pytest (--jaxtyping-packages string "
    "with spaces). After every operation each loaded module's instrumentation status and checker are compared with the model. "
    "Non-trivial = history with a look-alike sibling imported while its prefix is hooked, or an import after an uninstall, or two "
    "active hooks with different checkers covering one module; distinct by operation list."
)
ASSUMPTIONS = [
    "bytecode writing is off (cached bytecode is C18's subject); forest modules are purged from sys.modules between cases only",
    "real pytest sessions (2 per shard quick, 8 thorough) run in subprocesses with PYTEST_DISABLE_PLUGIN_AUTOLOAD=1 and -p jaxtyping._pytest_plugin",
    "the IPython magic is driven in fresh IPython subprocesses (3 histories on two shards in the quick tier, 6 per shard in the thorough tier)",
]

FOREST = {
    "foo/__init__.py": "from . import bar\nMOD = __name__\ndef f(x: int):\n    return x\ndef outer(x):\n    def inner(y: int):\n        return y\n    return inner(x)\n",
    "foo/bar/__init__.py": "MOD = __name__\ndef f(x: int):\n    return x\nclass K:\n    def m(self, x: int):\n        return x\ndef outer(x):\n    def inner(y: int):\n        return y\n    return inner(x)\n",
    "foo/bar/qux.py": "import foobar\nMOD = __name__\ndef f(x: int):\n    return x\ndef outer(x):\n    def inner(y: int):\n        return y\n    return inner(x)\n",
    "foo/barbaz.py": "MOD = __name__\ndef f(x: int):\n    return x\ndef lazy():\n    import fo\n    return fo\ndef outer(x):\n    def inner(y: int):\n        return y\n    return inner(x)\n",
    "foobar.py": "MOD = __name__\ndef f(x: int):\n    return x\ndef outer(x):\n    def inner(y: int):\n        return y\n    return inner(x)\n",
    "foo_bar.py": "import foo.bar\nMOD = __name__\ndef f(x: int):\n    return x\ndef outer(x):\n    def inner(y: int):\n        return y\n    return inner(x)\n",
    "fo.py": "MOD = __name__\ndef f(x: int):\n    return x\ndef outer(x):\n    def inner(y: int):\n        return y\n    return inner(x)\n",
    "foobar2/__init__.py": "MOD = __name__\ndef f(x: int):\n    return x\ndef outer(x):\n    def inner(y: int):\n        return y\n    return inner(x)\n",
    "foobar2/foo.py": "MOD = __name__\ndef f(x: int):\n    return x\ndef outer(x):\n    def inner(y: int):\n        return y\n    return inner(x)\n",
}
# modules that do not exist at first: the program tries to import them (optional dependency, plugin), they appear later
LATE = {"foo.late": "foo/late.py", "latemod": "latemod.py"}
LATE_SRC = "MOD = __name__\ndef f(x: int):\n    return x\ndef outer(x):\n    def inner(y: int):\n        return y\n    return inner(x)\n"
MODULES = ["foo", "foo.bar", "foo.bar.qux", "foo.barbaz", "foobar", "foo_bar", "fo", "foobar2", "foobar2.foo"]
OBS_MODULES = sorted(LATE) + MODULES
# static module-level imports (beyond parents)
IMPORTS = {"foo": ["foo.bar"], "foo.bar.qux": ["foobar"], "foo_bar": ["foo.bar"]}
HOOK_NAMES = ["zmod", "zpkg", "latemod", "foo.late", "foo", "foo.bar", "foo.bar.qux", "foo.barbaz", "foobar", "foo_bar", "fo", "foobar2", "foo.ba", "foob", "bar", "foobar2.foo", "foo.bar.q"]
TOP = ["foo", "foobar", "foo_bar", "fo", "foobar2", "latemod", "zmod", "zpkg"]

_state = {}


def setup_forest():
    if "dir" in _state:
        return _state["dir"]
    d = tempfile.mkdtemp(prefix="vf-c11-")
    for rel, src in FOREST.items():
        p = os.path.join(d, rel)
        os.makedirs(os.path.dirname(p), exist_ok=True)
        with open(p, "w") as f:
            f.write(src)
    # a package and a module inside a zip archive on sys.path (whether the hook instruments zipped sources is not settled by the
    # statement; hooked or not, importing them has to work)
    import zipfile

    with zipfile.ZipFile(os.path.join(d, "bundle.zip"), "w") as z:
        z.writestr("zmod.py", LATE_SRC)
        z.writestr("zpkg/__init__.py", "from . import inner\n" + LATE_SRC)
        z.writestr("zpkg/inner.py", LATE_SRC)
    sys.path.insert(0, os.path.join(d, "bundle.zip"))
    spy = types.ModuleType("vf_spy")
    spy.log = []

    def mk(tag):
        def checker(fn, *a, **k):
            import typeguard

            spy.log.append((tag, fn.__module__, fn.__qualname__))
            return typeguard.typechecked(fn)

        return checker

    spy.a = mk("a")
    spy.b = mk("b")
    sys.modules["vf_spy"] = spy
    sys.path.insert(0, d)
    _state["dir"] = d
    _state["spy"] = spy
    import atexit

    atexit.register(lambda: shutil.rmtree(d, ignore_errors=True))
    return d


def late_exists(name):
    """is the late module importable by now (its file exists in the main directory, or in a directory that was put on the path)"""
    return os.path.exists(os.path.join(_state["dir"], LATE[name])) or name in _state.get("elsewhere", {})


def purge():
    for rel in LATE.values():
        try:
            os.remove(os.path.join(_state["dir"], rel))
        except OSError:
            pass
    for name, newdir in list(_state.get("elsewhere", {}).items()):
        if newdir in sys.path:
            sys.path.remove(newdir)
        shutil.rmtree(newdir, ignore_errors=True)
    _state["elsewhere"] = {}
    for name in list(sys.modules):
        if name.split(".")[0] in TOP:
            del sys.modules[name]
    sys.meta_path[:] = [f for f in sys.meta_path if not isinstance(f, _JaxtypingFinder)]
    importlib.invalidate_caches()
    _state["spy"].log.clear()


def matches(mod, name):
    return mod == name or mod.startswith(name + ".")


class Model:
    def __init__(self):
        self.hooks = []  # list of dict(id, names, checker, active) in installation order
        self.loaded = {}  # module -> None (plain) | checker tag ('a' | 'b' | 'none')
        self.flags = set()
        self.uninstalled_once = False

    def decide(self, mod):
        for h in reversed(self.hooks):
            if h["active"] and any(matches(mod, n) for n in h["names"]):
                return h["checker"]
        return None

    def do_import(self, mod):
        parts = mod.split(".")
        for i in range(1, len(parts) + 1):
            m = ".".join(parts[:i])
            if m in self.loaded:
                continue
            st_ = self.decide(m)
            self.loaded[m] = st_
            # look-alike accounting
            for h in self.hooks:
                if h["active"]:
                    for n in h["names"]:
                        if m.startswith(n) and not matches(m, n):
                            self.flags.add("lookalike-while-prefix-hooked")
            if self.uninstalled_once:
                self.flags.add("import-after-uninstall")
            cover = {h["checker"] for h in self.hooks if h["active"] and any(matches(m, n) for n in h["names"])}
            if len(cover) >= 2:
                self.flags.add("two-checkers-cover-one-module")
            for dep in IMPORTS.get(m, []):
                self.do_import(dep)


def observe():
    """module -> None | 'a' | 'b' | 'none' for every forest module currently in sys.modules."""
    spy = _state["spy"]
    out = {}
    for name in OBS_MODULES:
        mod = sys.modules.get(name)
        if mod is None:
            continue
        wrapped = {(t, q) for (t, m, q) in spy.log if m == name}
        tags = {t for t, _ in wrapped}
        has_import = "jaxtyping" in vars(mod)
        is_wrapped = hasattr(mod.f, "__wrapped__")
        try:
            mod.f("not-an-int")
            raises = False
        except jaxtyping.TypeCheckError:
            raises = True
        # a nested def is decorated each time its enclosing function runs, i.e. long after the import
        try:
            mod.outer("not-an-int")
            nested_raises = False
        except jaxtyping.TypeCheckError:
            nested_raises = True
        except Exception as e:  # noqa: BLE001
            out[name] = f"inconsistent(calling a function with a nested def raised {type(e).__name__}: {e})"
            continue
        if nested_raises != raises:
            out[name] = f"inconsistent(top-level function checked={raises}, nested function checked={nested_raises})"
            continue
        if not has_import and not is_wrapped and not tags and not raises:
            out[name] = None
        elif has_import and is_wrapped and len(tags) == 1 and raises and ("f" in {q for _, q in wrapped}):
            out[name] = next(iter(tags))
        elif has_import and is_wrapped and not tags and not raises:
            out[name] = "none"
        else:
            out[name] = f"inconsistent(import={has_import}, wrapped={is_wrapped}, spies={sorted(tags)}, raises={raises})"
    return out


class FakeConfig:
    def __init__(self, value):
        self.value = value

    def getoption(self, name):
        assert name == "jaxtyping_packages"
        return self.value


def check_history(ctx, ops):
    setup_forest()
    obs.reset_state()
    purge()
    model = Model()
    managers = {}
    name_lists = {}  # hook id -> the list object given to install_import_hook
    blocks = []
    try:
        for i, op in enumerate(ops):
            kind = op[0]
            force_list = False
            if kind == "install-same":
                # the caller re-uses the very list object it passed to an earlier install (whether or not that hook is still installed)
                if not name_lists:
                    continue
                src = sorted(name_lists)[op[1] % len(name_lists)]
                op = ["install", name_lists[src], op[2], op[3]]
                kind = "install"
                force_list = True
                model.flags.add("names-list-object-reused")
            if kind == "install":
                _, names, checker, style = op
                cstr = None if checker == "none" else f"vf_spy.{checker}"
                if len(names) > 1 or style == "list" or force_list:
                    arg = names if any(names is l for l in name_lists.values()) else list(names)
                    name_lists[len(model.hooks)] = arg
                else:
                    arg = names[0]
                try:
                    mgr = install_import_hook(arg, cstr)
                    if style == "with":
                        mgr.__enter__()
                except Exception as e:  # noqa: BLE001  (installing a hook is valid whatever is installed already, under any warnings configuration)
                    raise Violation("operation-raised", {"ops": ops}, f"op #{i} install_import_hook({arg!r}, {cstr!r}) raised {type(e).__name__}: {e}; hooks={model.hooks}; history={ops[:i + 1]}")
                hid = len(model.hooks)
                managers[hid] = (mgr, style)
                model.hooks.append({"names": list(names), "checker": checker, "active": True})
            elif kind == "uninstall":
                act = [k for k, h in enumerate(model.hooks) if h["active"] and not h.get("permanent")]
                if not act:
                    continue
                hid = act[op[1] % len(act)]
                mgr, style = managers[hid]
                try:
                    if style == "with":
                        mgr.__exit__(None, None, None)
                    else:
                        mgr.uninstall()
                        if op[1] % 2:
                            mgr.uninstall()  # idempotent
                except Exception as e:  # noqa: BLE001
                    raise Violation("operation-raised", {"ops": ops}, f"op #{i} uninstalling hook {model.hooks[hid]} raised {type(e).__name__}: {e}; history={ops[:i + 1]}")
                model.hooks[hid]["active"] = False
                model.uninstalled_once = True
                # the program drops its handle; whatever the hook owned may be collected now
                del managers[hid], mgr
                gc.collect(1)
            elif kind == "import":
                try:
                    importlib.import_module(op[1])
                except Exception as e:  # noqa: BLE001
                    raise Violation("operation-raised", {"ops": ops}, f"op #{i} import {op[1]} raised {type(e).__name__}: {e}; hooks={model.hooks}; history={ops[:i + 1]}")
                model.do_import(op[1])
            elif kind == "create":
                path = os.path.join(_state["dir"], LATE[op[1]])
                if not late_exists(op[1]):
                    with open(path, "w") as f:
                        f.write(LATE_SRC)
                    importlib.invalidate_caches()
                    model.flags.add("module-appears-later")
            elif kind == "create-elsewhere":
                # the module becomes reachable through a NEW path entry (a directory appended to sys.path / to the package's __path__):
                # stock importlib needs no invalidate_caches() for that
                if not late_exists(op[1]) and (op[1] == "latemod" or "foo" in sys.modules):
                    _state["counter"] = _state.get("counter", 0) + 1
                    newdir = os.path.join(_state["dir"], f"elsewhere{_state['counter']}")
                    os.makedirs(newdir)
                    with open(os.path.join(newdir, LATE[op[1]].rsplit("/", 1)[-1]), "w") as f:
                        f.write(LATE_SRC)
                    if op[1] == "latemod":
                        sys.path.append(newdir)
                    else:
                        sys.modules["foo"].__path__.append(newdir)
                    _state.setdefault("elsewhere", {})[op[1]] = newdir
                    model.flags.add("module-appears-later")
                    model.flags.add("module-appears-through-new-path-entry")
            elif kind == "try-import":
                exists = late_exists(op[1])
                try:
                    importlib.import_module(op[1])
                    failed = None
                except ModuleNotFoundError as e:
                    failed = e
                except Exception as e:  # noqa: BLE001
                    raise Violation("operation-raised", {"ops": ops}, f"op #{i} import {op[1]} raised {type(e).__name__}: {e}; history={ops[:i + 1]}")
                if exists and failed is not None and op[1] not in sys.modules:
                    raise Violation("operation-raised", {"ops": ops}, f"op #{i}: {op[1]} exists by now but importing it raised {failed!r}; hooks={model.hooks}; history={ops[:i + 1]}")
                if not exists and failed is None:
                    raise HarnessError(f"{op[1]} imported although its file does not exist")
                if exists:
                    model.do_import(op[1])
                elif "." in op[1]:
                    model.do_import(op[1].rsplit(".", 1)[0])  # the parent package was imported on the way
            elif kind == "import-zip":
                try:
                    zm = importlib.import_module(op[1])
                    try:
                        zm.f("not-an-int")
                    except jaxtyping.TypeCheckError:
                        pass
                    zm.f(3)
                except Exception as e:  # noqa: BLE001
                    raise Violation("operation-raised", {"ops": ops}, f"op #{i}: importing / using {op[1]} from a zip archive on sys.path raised {type(e).__name__}: {e}; hooks={model.hooks}; history={ops[:i + 1]}")
                model.flags.add("zipped-module-imported-under-hooks" if any(h["active"] for h in model.hooks) else "zipped-module")
            elif kind == "lazy":
                try:
                    if "foo.barbaz" not in sys.modules:
                        importlib.import_module("foo.barbaz")
                        model.do_import("foo.barbaz")
                    sys.modules["foo.barbaz"].lazy()
                except Exception as e:  # noqa: BLE001
                    raise Violation("operation-raised", {"ops": ops}, f"op #{i} (call a function of foo.barbaz that imports 'fo' lazily) raised {type(e).__name__}: {e}; hooks={model.hooks}; history={ops[:i + 1]}")
                model.do_import("fo")
            elif kind == "disable":
                # the run-time switch says whether calls are CHECKED; what gets instrumented on import does not depend on it
                jaxtyping.config.update("jaxtyping_disable", bool(op[1]))
                if op[1]:
                    model.flags.add("import-while-checking-disabled")
            elif kind == "pytest":
                from jaxtyping import _pytest_plugin

                _, names, checker, spaced = op
                cstr = "None" if checker == "none" else f"vf_spy.{checker}"
                if checker == "none":
                    continue  # the option has no spelling for 'no typechecker'
                sep = " , " if spaced else ","
                value = sep.join(list(names) + [cstr])
                already = sorted(n for n in names if n in sys.modules)
                try:
                    _pytest_plugin.pytest_configure(FakeConfig(value))
                    raised = None
                except RuntimeError as e:
                    raised = e
                except Exception as e:  # noqa: BLE001
                    raise Violation("operation-raised", {"ops": ops}, f"op #{i} pytest --jaxtyping-packages={value!r} raised {type(e).__name__}: {e}; hooks={model.hooks}; history={ops[:i + 1]}")
                if already:
                    if raised is None:
                        raise Violation("pytest-option", {"ops": ops}, f"--jaxtyping-packages={value!r} with {already} already imported did not raise RuntimeError")
                    continue
                if raised is not None:
                    raise Violation("pytest-option", {"ops": ops}, f"--jaxtyping-packages={value!r} raised {raised!r}")
                # pytest_configure keeps no handle: the hook stays active for the rest of the history
                model.hooks.append({"names": list(names), "checker": checker, "active": True, "permanent": True})
            else:
                raise AssertionError(op)
            was_disabled = bool(jaxtyping.config.jaxtyping_disable)
            jaxtyping.config.update("jaxtyping_disable", False)  # observations are made with checking on
            try:
                got = observe()
            finally:
                jaxtyping.config.update("jaxtyping_disable", was_disabled)
            exp = {m: model.loaded[m] for m in OBS_MODULES if m in model.loaded}
            if set(got) != set(exp):
                raise Violation("loaded-set", {"ops": ops}, f"after op #{i} {op}: loaded forest modules {sorted(got)} vs model {sorted(exp)}")
            for m in exp:
                if got[m] != exp[m]:
                    raise Violation("instrumentation", {"ops": ops},
                                    f"after op #{i} {op}: module {m} is {'plain' if got[m] is None else 'instrumented/' + str(got[m])}, model says "
                                    f"{'plain' if exp[m] is None else 'instrumented/' + str(exp[m])}; hooks={model.hooks}; history={ops[:i + 1]}")
    finally:
        jaxtyping.config.update("jaxtyping_disable", False)
        purge()
    nontrivial = bool(model.flags)
    ctx.note(ops, nontrivial, classes=sorted(model.flags) + [f"nhooks-{min(len(model.hooks), 3)}"], sample={"ops": ops})


names_st = st.lists(st.sampled_from(HOOK_NAMES), min_size=1, max_size=3, unique=True)
op_st = st.one_of(
    st.tuples(st.just("install"), names_st, st.sampled_from(["a", "b", "none"]), st.sampled_from(["with", "handle", "list"])),
    st.tuples(st.just("import"), st.sampled_from(MODULES)),
    st.tuples(st.just("import"), st.sampled_from(MODULES)),
    st.tuples(st.just("uninstall"), st.integers(0, 5)),
    st.tuples(st.just("install-same"), st.integers(0, 3), st.sampled_from(["a", "b", "none"]), st.sampled_from(["list", "with", "handle"])),
    st.tuples(st.just("lazy")),
    st.tuples(st.just("try-import"), st.sampled_from(sorted(LATE))),
    st.tuples(st.just("create"), st.sampled_from(sorted(LATE))),
    st.tuples(st.just("create-elsewhere"), st.sampled_from(sorted(LATE))),
    st.tuples(st.just("import-zip"), st.sampled_from(["zmod", "zpkg", "zpkg.inner"])),
    st.tuples(st.just("try-import"), st.sampled_from(sorted(LATE))),
    st.tuples(st.just("disable"), st.sampled_from([True, False, True])),
    st.tuples(st.just("pytest"), names_st, st.sampled_from(["a", "b"]), st.booleans()),
)


def run(ctx):
    @given(st.lists(op_st, min_size=3, max_size=14))
    def histories(ops):
        ops = [list(o) for o in ops]
        # the pytest operation installs a hook that can only be removed by hygiene: use it at most once, last-but-few
        seen = False
        clean = []
        for o in ops:
            if o[0] == "pytest":
                if seen:
                    continue
                seen = True
            clean.append(o)
        check_history(ctx, clean)

    ctx.hyp(histories, max_examples=ctx.n(1500, 8000))

    # the IPython magic, each history in a fresh IPython process (vf/checks/c11_ipython.py)
    from vf.checks.c11_ipython import check_ipython_history, ipy_history

    @given(ipy_history())
    def ipython(ops):
        check_ipython_history(ctx, ops)

    if ctx.shard < 2 or ctx.tier == "thorough":
        ctx.hyp(ipython, max_examples=ctx.n(3, 6), shrink=False)

    # the pytest option in real pytest sessions (vf/checks/c11_pytest.py): the hook lasts for the whole session
    from vf.checks.c11_pytest import check_pytest_real, pytest_scenario

    @given(pytest_scenario(MODULES, [n for n in HOOK_NAMES if n in MODULES or n in ("foo.ba", "foob")]))
    def pytest_real(case):
        check_pytest_real(ctx, case, setup_forest())

    ctx.hyp(pytest_real, max_examples=ctx.n(2, 8), shrink=False)


def replay(case, clause, ctx):
    try:
        if "ipython" in case:
            from vf.checks.c11_ipython import check_ipython_history

            check_ipython_history(ctx, case["ipython"])
            return None
        if "pytest_real" in case:
            from vf.checks.c11_pytest import check_pytest_real

            check_pytest_real(ctx, case, setup_forest())
            return None
        check_history(ctx, [list(o) for o in case["ops"]])
    except Violation as v:
        return str(v)
    return None
