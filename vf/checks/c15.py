"""C15 -- nested, union, TypeVar and scalar annotations obey the documented laws.

Laws are checked as equalities of acceptance vectors over a probe set (arrays of every dtype kind x
shapes on NumPy / duck / JAX, Python and NumPy scalars, non-arrays), each side evaluated in a fresh
context and under a prior context:
  N  D2[D1[A,s1],s2] == (D1 n D2)[A,'s2 s1']  (dtype part from the documented table, shape part from
     Shaped[A,'s2 s1']); ValueError iff the intersection is empty or both specs have a multi-axis token.
     All 34x34 ordered category pairs are enumerated; spec pairs come from Hypothesis.
  U  D[Union[A,B],s] == Union[D[A,s],D[B,s]]  (also A | B)
  T  D[TypeVar,s] == D[bound,s] / D[Union[constraints],s] / D[Any,s]
  S  bool/int/float/complex survive iff the spec admits rank 0 and the category contains the kind;
     otherwise dropped from a union, or ValueError when nothing is left
  A  Scalar, ScalarLike, PRNGKeyArray equal their documented definitions."""
from __future__ import annotations

import enum
import itertools
import typing
from typing import Any, TypeVar, Union

import numpy as np
from hypothesis import given, strategies as st

import jaxtyping
from jaxtyping import Key, Shaped, UInt32, jaxtyped
from vf import obs, usercats
from vf.core import HarnessError, Violation
from vf.gen import dims as gd
from vf.models import dimlang as dl
from vf.models import dtypes as dt

ID = "C15"
LEVEL = "exploration"
SHARDS = {"quick": 4, "thorough": 16}
RULE = (
    "Law N: all 34x34 ordered category pairs (exhaustive) x 3 fixed spec pairs, three-level nestings on random category triples, plus Hypothesis spec pairs (0..3 tokens each, multi-axis "
    "tokens on either/both sides) on random category pairs; law U/T: categories x array-type expressions (Union, X|Y, TypeVar plain/"
    "bound/constrained) x Hypothesis specs; law S: every category (abstract: the documented families; precision: the family of its dtype names) x {bool,int,float,complex} "
    "x specs admitting / not admitting rank 0, alone and inside unions; law A: the three aliases. Non-trivial = pair with a proper "
    "(non-empty, non-identity) intersection or a variadic on either side; union/TypeVar with >=2 members; scalar case with a dropped "
    "member; distinct by (law, categories, specs, array type)."
)
ASSUMPTIONS = [
    "dtype intersection computed from vf/models/dtypes.py; the shape side of law N is evaluated with the real Shaped[A, 's2 s1'] (metamorphic)",
    "precision-specific classes with Python scalars, and np.bool_/np.generic/np.number as array types, are checked for totality only; law C (classes other than the four scalar types are ordinary array types) is metamorphic against D[Any, s]",
]

CATS = list(dt.CATEGORIES)
PROBE_DTYPES = ["bool", "int8", "uint8", "int32", "uint32", "float16", "float32", "float64", "complex64", "complex128"]
PROBE_SHAPES = [(), (1,), (2,), (3,), (3, 4), (1, 4), (2, 3, 4), (3, 3)]
_P = {}


class Colour(enum.IntEnum):
    RED = 1


class MyFloat(float):
    pass


# classes that are NOT one of the four Python scalar types (several inherit from one): ordinary array types.
# (np.bool_, np.generic and np.number are handled like scalar types by the code for the sake of ArrayLike: totality only, not here;
# classes whose instances lack .shape/.dtype are outside the documented domain of array types)
CLASS_TYPES = {"np.float64": np.float64, "np.complex128": np.complex128, "np.float32": np.float32, "np.int64": np.int64, "np.uint8": np.uint8}


def probes(kind="np"):
    if kind not in _P:
        import jax
        import jax.numpy as jnp
        import ml_dtypes

        out = []
        if kind == "np":
            for d in PROBE_DTYPES + [ml_dtypes.bfloat16, ml_dtypes.int4, ml_dtypes.float8_e4m3fn]:
                for s in PROBE_SHAPES:
                    out.append(np.zeros(s, dtype=d))
            for s in ((3,), (3, 4), ()):
                out.append(usercats.DuckArr(s, "float32"))
                out.append(usercats.DuckArr(s, "int8"))
            out += [True, 3, 2.5, 1j, np.float32(1.0), np.int8(1), np.bool_(True), None, "s", (1, 2)]
            out += [np.float64(1.0), np.complex128(1j), np.int64(3), Colour.RED, MyFloat(2.5)]
        else:
            for d in ("bool", "int32", "uint32", "float32", "float16"):
                for s in ((), (2,), (3,), (2, 3)):
                    out.append(jnp.zeros(s, dtype=d))
            out += [jax.random.key(0), jax.random.split(jax.random.key(0), 2), jax.random.PRNGKey(0), np.zeros(()), np.zeros((2,), dtype="uint32"),
                    True, 3, 2.5, 1j, np.float32(1), None, "s", np.bool_(True), np.int8(1), np.complex64(1j), np.zeros((), dtype=bool)]
        _P[kind] = out
    return _P[kind]


def dtype_name_of(v):
    if isinstance(v, np.ndarray):
        return dt.canonical_numpy(v.dtype)
    if isinstance(v, usercats.DuckArr):
        return v.dtype
    return None


def members(ann):
    if typing.get_origin(ann) is Union:
        return list(typing.get_args(ann))
    return [ann]


def accepts(ann, v):
    """Union semantics: some member accepts (members tried in order, each rolls back on failure)."""
    res = []
    for a in members(ann):
        if isinstance(a, type) and issubclass(a, jaxtyping.AbstractArray):
            r = obs.verdict(v, a)
        else:
            r = "True" if isinstance(v, a) else "False"
        if r == "True":
            return "True"
        res.append(r)
    return "AnnotationError" if "AnnotationError" in res else ("False" if all(r == "False" for r in res) else "|".join(res))


def vec(ann, kind="np"):
    out = []
    for prior in (False, True):
        for v in probes(kind):
            with jaxtyped("context"):
                if prior:
                    isinstance(np.zeros((3,)), Shaped[np.ndarray, "a"])
                    isinstance(np.zeros((1, 4)), Shaped[np.ndarray, "*v"])
                out.append(accepts(ann, v))
    return out


def build(fn):
    try:
        return "ok", fn()
    except ValueError as e:
        return "ValueError", str(e)
    except BaseException as e:  # noqa: BLE001
        return "other", f"{type(e).__name__}: {e}"


def first_diff(a, b, kind="np"):
    i = next(i for i, (x, y) in enumerate(zip(a, b)) if x != y)
    n = len(probes(kind))
    v = probes(kind)[i % n]
    d = f"{type(v).__name__} shape={getattr(v, 'shape', None)} dtype={getattr(v, 'dtype', None)}" if hasattr(v, "shape") else repr(v)
    return f"probe {d} ({'prior' if i >= n else 'fresh'} context): {a[i]} vs {b[i]}"


# ---------------------------------------------------------------------------------------- law N
def has_multi(spec):
    return any(t == "..." or "*" in t.split("=")[-1][:3] or t.startswith("*") or ("*" in t and not any(c.isalnum() for c in t.split("*")[0])) for t in spec.split())


def law_nesting(ctx, c1, c2, s1, s2, multi1, multi2, at="np"):
    A = np.ndarray if at == "np" else Any
    inter = dt.intersect(c1, c2)
    empty = inter is not None and len(inter) == 0
    case = {"law": "N", "inner": c1, "outer": c2, "s1": s1, "s2": s2, "at": at}
    kind, ann = build(lambda: getattr(jaxtyping, c2)[getattr(jaxtyping, c1)[A, s1], s2])
    proper = inter is not None and inter != dt.TABLE[c1] and inter != dt.TABLE[c2] and not empty
    ctx.note(case, proper or multi1 or multi2, classes=["law-N", f"built-{kind}"] + (["proper-intersection"] if proper else []) + (["empty-intersection"] if empty else [])
             + (["both-multi"] if multi1 and multi2 else []),
             sample={"law": "nesting", "annotation": f"{c2}[{c1}[{at}, {s1!r}], {s2!r}]", "result": kind})
    if kind == "other":
        raise Violation("N-totality", case, f"{c2}[{c1}[A,{s1!r}],{s2!r}] raised {ann}")
    should_fail = empty or (multi1 and multi2)
    if should_fail and kind != "ValueError":
        raise Violation("N-should-raise", case, f"{c2}[{c1}[A,{s1!r}],{s2!r}] built although {'the dtype intersection is empty' if empty else 'both specs have a multi-axis token'}")
    if not should_fail and kind != "ok":
        raise Violation("N-should-build", case, f"{c2}[{c1}[A,{s1!r}],{s2!r}] raised ValueError: {ann}")
    if kind != "ok":
        return
    ref = Shaped[A, (s2 + " " + s1).strip()]
    v_n = vec(ann)
    v_r = vec(ref)
    exp = []
    n = len(probes())
    for i, r in enumerate(v_r):
        v = probes()[i % n]
        name = dtype_name_of(v)
        if r == "True" and name is not None and inter is not None and name not in inter:
            exp.append("False")
        elif r == "True" and name is None and hasattr(v, "dtype") and inter is not None:
            exp.append(None)  # numpy scalars with Any: dtype name not modelled here
        elif r == "AnnotationError" and name is not None and inter is not None and name not in inter:
            exp.append("False")  # the dtype is tested before the shape
        else:
            exp.append(r)
    for i, (g, e) in enumerate(zip(v_n, exp)):
        if e is not None and g != e:
            v = probes()[i % n]
            raise Violation("N-law", case, f"{c2}[{c1}[A,{s1!r}],{s2!r}] on {type(v).__name__} shape={getattr(v, 'shape', None)} dtype={getattr(v, 'dtype', None)} "
                                           f"({'prior' if i >= n else 'fresh'} ctx): {g}, law says {e} (intersection {sorted(inter) if inter is not None else 'any'}, shape side {v_r[i]})")


def law_nesting3(ctx, c1, c2, c3, s1, s2, s3):
    """Three levels: D3[D2[D1[A,s1],s2],s3] == (D1 n D2 n D3)[A,'s3 s2 s1'] (single-axis specs)."""
    A = np.ndarray
    t1, t2, t3 = dt.TABLE[c1], dt.TABLE[c2], dt.TABLE[c3]
    sets = [t for t in (t1, t2, t3) if t is not None]
    inter = None if not sets else set.intersection(*[set(t) for t in sets])
    i12 = dt.intersect(c1, c2)
    empty = (inter is not None and not inter) or (i12 is not None and not i12)
    case = {"law": "N3", "cats": [c1, c2, c3], "specs": [s1, s2, s3]}
    kind, ann = build(lambda: getattr(jaxtyping, c3)[getattr(jaxtyping, c2)[getattr(jaxtyping, c1)[A, s1], s2], s3])
    ctx.note(case, not empty and len({c1, c2, c3}) == 3, classes=["law-N3", f"built-{kind}"], sample={"law": "nesting3", "annotation": f"{c3}[{c2}[{c1}[A,{s1!r}],{s2!r}],{s3!r}]", "result": kind})
    if kind == "other":
        raise Violation("N-totality", case, f"raised {ann}")
    if empty != (kind == "ValueError"):
        raise Violation("N-should-raise" if empty else "N-should-build", case, f"{c3}[{c2}[{c1}[A,{s1!r}],{s2!r}],{s3!r}]: {kind}; empty intersection={empty}")
    if kind != "ok":
        return
    ref = Shaped[A, f"{s3} {s2} {s1}"]
    v_n, v_r = vec(ann), vec(ref)
    n = len(probes())
    for i, (g, r) in enumerate(zip(v_n, v_r)):
        v = probes()[i % n]
        name = dtype_name_of(v)
        if name is None:
            continue
        e = "False" if (inter is not None and name not in inter) else r
        if g != e:
            raise Violation("N-law", case, f"{c3}[{c2}[{c1}[A,{s1!r}],{s2!r}],{s3!r}] on {type(v).__name__} shape={v.shape} dtype={v.dtype}: {g}, law says {e} "
                                           f"(intersection {sorted(inter) if inter is not None else 'any'})")


# ---------------------------------------------------------------------------------------- law U / T
T_PLAIN = TypeVar("T_PLAIN")
T_BOUND = TypeVar("T_BOUND", bound=np.ndarray)
T_CONS = TypeVar("T_CONS", np.ndarray, usercats.DuckArr)
T_BOUND_ANN = TypeVar("T_BOUND_ANN", bound=Union[np.ndarray, usercats.DuckArr])
class _ThirdArr(usercats.DuckArr):
    """a third array type (its instances are DuckArr instances too)"""


T_CONS_SCALAR = TypeVar("T_CONS_SCALAR", np.ndarray, float)  # constraints mixing an array class and a Python scalar type
T_CONS_UNION = TypeVar("T_CONS_UNION", Union[np.ndarray, usercats.DuckArr], _ThirdArr)  # a constraint that is itself a union
T_CONS_BAR = TypeVar("T_CONS_BAR", np.ndarray | usercats.DuckArr, _ThirdArr)
try:  # PEP 696 defaults (typing_extensions builds genuine typing.TypeVar objects): a default says nothing about what the TypeVar may stand for
    import typing_extensions as _te

    T_PLAIN_DEFAULT = _te.TypeVar("T_PLAIN_DEFAULT", default=np.ndarray)
    T_BOUND_DEFAULT = _te.TypeVar("T_BOUND_DEFAULT", bound=Union[np.ndarray, usercats.DuckArr], default=np.ndarray)
    T_CONS_DEFAULT = _te.TypeVar("T_CONS_DEFAULT", np.ndarray, usercats.DuckArr, default=usercats.DuckArr)
except Exception:  # noqa: BLE001
    T_PLAIN_DEFAULT = T_BOUND_DEFAULT = T_CONS_DEFAULT = None


def law_union_typevar(ctx, cat, spec, form):
    D = getattr(jaxtyping, cat)
    A, B = np.ndarray, usercats.DuckArr
    case = {"law": "U/T", "cat": cat, "spec": spec, "form": form}
    if form == "Union":
        lhs, rhs = (lambda: D[Union[A, B], spec]), (lambda: Union[D[A, spec], D[B, spec]])
    elif form == "Union-rev":
        lhs, rhs = (lambda: D[Union[B, A], spec]), (lambda: Union[D[B, spec], D[A, spec]])
    elif form == "bar":
        lhs, rhs = (lambda: D[A | B, spec]), (lambda: Union[D[A, spec], D[B, spec]])
    elif form == "union3":
        lhs, rhs = (lambda: D[Union[A, B, Any], spec]), (lambda: Union[D[A, spec], D[B, spec], D[Any, spec]])
    elif form == "Union-nested":
        # members that are themselves annotations: each member is nested separately, so a member whose dtypes do not
        # intersect the outer category makes the whole thing an error -- exactly as in the spelled-out union
        X1, X2 = jaxtyping.Float[A, "a"], jaxtyping.Bool[A, "a"]
        lhs, rhs = (lambda: D[Union[X1, X2], spec]), (lambda: Union[D[X1, spec], D[X2, spec]])
    elif form == "bar-nested":
        X1, X2 = jaxtyping.Int[A, "a"], jaxtyping.Float[B, "a"]
        lhs, rhs = (lambda: D[X1 | X2, spec]), (lambda: Union[D[X1, spec], D[X2, spec]])
    elif form == "tv-plain":
        lhs, rhs = (lambda: D[T_PLAIN, spec]), (lambda: D[Any, spec])
    elif form == "tv-bound":
        lhs, rhs = (lambda: D[T_BOUND, spec]), (lambda: D[A, spec])
    elif form == "tv-bound-union":
        lhs, rhs = (lambda: D[T_BOUND_ANN, spec]), (lambda: Union[D[A, spec], D[B, spec]])
    elif form == "tv-plain-default":
        lhs, rhs = (lambda: D[T_PLAIN_DEFAULT, spec]), (lambda: D[Any, spec])
    elif form == "tv-bound-default":
        lhs, rhs = (lambda: D[T_BOUND_DEFAULT, spec]), (lambda: Union[D[A, spec], D[B, spec]])
    elif form == "tv-constrained-default":
        lhs, rhs = (lambda: D[T_CONS_DEFAULT, spec]), (lambda: Union[D[A, spec], D[B, spec]])
    elif form == "tv-constrained-scalar":
        lhs, rhs = (lambda: D[T_CONS_SCALAR, spec]), (lambda: D[Union[np.ndarray, float], spec])
    elif form == "tv-constrained-union":
        lhs, rhs = (lambda: D[T_CONS_UNION, spec]), (lambda: Union[D[A, spec], D[B, spec], D[_ThirdArr, spec]])
    elif form == "tv-constrained-bar":
        lhs, rhs = (lambda: D[T_CONS_BAR, spec]), (lambda: Union[D[A, spec], D[B, spec], D[_ThirdArr, spec]])
    elif form == "tv-constrained":
        lhs, rhs = (lambda: D[T_CONS, spec]), (lambda: Union[D[A, spec], D[B, spec]])
    else:
        raise AssertionError(form)
    kl, l = build(lhs)
    kr, r = build(rhs)
    ctx.note(case, True, classes=["law-UT", f"form-{form}", f"built-{kl}"], sample={"law": form, "category": cat, "spec": spec})
    if kl == "other" or kr == "other" or kl != kr:
        raise Violation("UT-build", case, f"{form} with {cat}, {spec!r}: lhs {kl} {l if kl != 'ok' else ''} / rhs {kr} {r if kr != 'ok' else ''}")
    if kl != "ok":
        return
    vl, vr = vec(l), vec(r)
    if vl != vr:
        raise Violation("UT-law", case, f"{form} with {cat}, {spec!r}: {first_diff(vl, vr)}")


# ---------------------------------------------------------------------------------------- law C
def law_class(ctx, cat, tname, spec):
    """Only bool/int/float/complex themselves are 'Python scalar types'; any other class T is an ordinary array type:
    D[T, s] builds, and accepts x exactly when isinstance(x, T) and D[Any, s] accepts x."""
    D = getattr(jaxtyping, cat)
    T = CLASS_TYPES[tname]
    case = {"law": "C", "cat": cat, "type": tname, "spec": spec}
    kind, ann = build(lambda: D[T, spec])
    ctx.note(case, issubclass(T, (int, float, complex)), classes=["law-C", f"type-{tname}", f"built-{kind}"], sample={"law": "class", "annotation": f"{cat}[{tname}, {spec!r}]", "result": kind})
    if kind != "ok":
        raise Violation("C-build", case, f"{cat}[{tname}, {spec!r}] should be an ordinary annotation, building it gave {kind}: {ann}")
    ref = D[Any, spec]
    for v in probes():
        with jaxtyped("context"):
            got = accepts(ann, v)
        with jaxtyped("context"):
            want = accepts(ref, v) if isinstance(v, T) else "False"
        if got != want:
            raise Violation("C-law", case, f"isinstance({v!r} of type {type(v).__name__}, {cat}[{tname}, {spec!r}]) = {got}; "
                                           f"isinstance(x, {tname}) = {isinstance(v, T)}, {cat}[Any, {spec!r}] gives {accepts(ref, v)}")


# ---------------------------------------------------------------------------------------- law NA
class _OnlyShape:
    shape = (3,)


class _OnlyDtype:
    dtype = "float32"


def law_non_arrays(ctx):
    """A value that is not array-like (it lacks .shape or .dtype, or both) is rejected -- with False, never with an exception -- by every
    annotation whose array type is Any or an unconstrained TypeVar (they 'stand for any array-like object')."""
    values = {"memoryview": memoryview(b"abcd"), "np.dtype instance": np.dtype("float32"), "object with .shape only": _OnlyShape(), "object with .dtype only": _OnlyDtype(),
              "None": None, "int": 3, "str": "s", "list": [1.0, 2.0], "range": range(3)}
    for cat in ("Shaped", "Float", "Int8", "Num"):
        for at_name, at in (("Any", Any), ("TypeVar", T_PLAIN)):
            for spec in ("", "...", "a", "*v 3"):
                ann = getattr(jaxtyping, cat)[at, spec]
                for vname, v in values.items():
                    with jaxtyped("context"):
                        got = accepts(ann, v)
                    ctx.note(["NA", cat, at_name, spec, vname], vname in ("memoryview", "np.dtype instance", "object with .shape only", "object with .dtype only"), classes=["law-NA"])
                    if got != "False":
                        raise Violation("NA-law", {"law": "NA"}, f"isinstance(<{vname}>, {cat}[{at_name}, {spec!r}]) = {got}; a value without both .shape and .dtype is not array-like: False")


# ---------------------------------------------------------------------------------------- law S
SCALARS = {"bool": bool, "int": int, "float": float, "complex": complex}


def contains_scalar(cat, sk):
    """does the category contain the Python scalar type?  Abstract categories: the documented families; a precision category
    (Float32, Int4, Complex64, Float8e5m2, ...) contains the scalar type of its own family -- one of its dtype names starts with the
    scalar type's name (so UInt8 does not contain int, Float32 contains float)."""
    if cat in dt.ABSTRACT:
        return cat in dt.SCALAR_KIND[sk]
    return any(name.startswith(sk) for name in dt.TABLE[cat])


def law_scalar(ctx, cat, sk, spec, rank0, in_union):
    D = getattr(jaxtyping, cat)
    py = SCALARS[sk]
    abstract = True  # (precision categories follow the same law, by the family of their dtype names)
    survives = rank0 and contains_scalar(cat, sk)
    case = {"law": "S", "cat": cat, "scalar": sk, "spec": spec, "in_union": in_union}
    if in_union:
        kind, ann = build(lambda: D[Union[py, np.ndarray], spec])
    else:
        kind, ann = build(lambda: D[py, spec])
    ctx.note(case, abstract and in_union and not survives, classes=["law-S", f"survives-{survives}", f"built-{kind}"] + ([] if cat in dt.ABSTRACT else ["precision-category"]),
             sample={"law": "scalar", "annotation": f"{cat}[{'Union[' + sk + ', ndarray]' if in_union else sk}, {spec!r}]", "result": kind})
    if kind == "other":
        raise Violation("S-totality", case, f"raised {ann}")
    if not abstract:
        return
    if not in_union:
        if survives and not (kind == "ok" and ann is py):
            raise Violation("S-law", case, f"{cat}[{sk}, {spec!r}] should be {sk} itself, got {kind} {ann!r}")
        if not survives and kind != "ValueError":
            raise Violation("S-law", case, f"{cat}[{sk}, {spec!r}] should raise ValueError (rank-0 admissible: {rank0}, category contains {sk}: {contains_scalar(cat, sk)}), got {ann!r}")
        return
    if kind != "ok":
        raise Violation("S-law", case, f"{cat}[Union[{sk}, ndarray], {spec!r}] raised ValueError: {ann}")
    ms = members(ann)
    has_py = any(m is py for m in ms)
    if has_py != survives:
        raise Violation("S-law", case, f"{cat}[Union[{sk}, ndarray], {spec!r}] = {ann!r}: scalar type {'kept' if has_py else 'dropped'} but should be {'kept' if survives else 'dropped'}")
    rest = [m for m in ms if m is not py]
    ref = D[np.ndarray, spec]
    if len(rest) != 1 or vec(rest[0]) != vec(ref):
        raise Violation("S-law", case, f"array member of {ann!r} does not behave like {cat}[ndarray, {spec!r}]")


def law_scalar_pair(ctx, cat, sk1, sk2, spec, rank0, with_array):
    """Union of two Python scalar types (in this order), optionally with an array type: every scalar type survives or is dropped on
    its own merits -- the order of the members and subclass relations between them (bool is a subclass of int) do not matter."""
    D = getattr(jaxtyping, cat)
    if cat not in dt.ABSTRACT:
        return
    ms_in = [SCALARS[sk1], SCALARS[sk2]] + ([np.ndarray] if with_array else [])
    case = {"law": "S2", "cat": cat, "scalars": [sk1, sk2], "spec": spec, "with_array": with_array}
    kind, ann = build(lambda: D[Union[tuple(ms_in)], spec])
    survivors = {SCALARS[sk] for sk in (sk1, sk2) if rank0 and cat in dt.SCALAR_KIND[sk]}
    ctx.note(case, len(survivors) == 1, classes=["law-S2", f"survivors-{len(survivors)}", f"built-{kind}"],
             sample={"law": "scalar pair", "annotation": f"{cat}[Union[{sk1}, {sk2}{', ndarray' if with_array else ''}], {spec!r}]", "result": kind})
    if kind == "other":
        raise Violation("S-totality", case, f"raised {ann}")
    if not survivors and not with_array:
        if kind != "ValueError":
            raise Violation("S-law", case, f"{cat}[Union[{sk1}, {sk2}], {spec!r}]: no member survives, expected ValueError, got {ann!r}")
        return
    if kind != "ok":
        raise Violation("S-law", case, f"{cat}[Union[{sk1}, {sk2}{', ndarray' if with_array else ''}], {spec!r}] raised ValueError ({ann}); surviving scalar types should be {sorted(t.__name__ for t in survivors)}")
    got = {m for m in members(ann) if m in SCALARS.values()}
    if got != survivors:
        raise Violation("S-law", case, f"{cat}[Union[{sk1}, {sk2}{', ndarray' if with_array else ''}], {spec!r}] = {ann!r}: scalar types kept {sorted(t.__name__ for t in got)}, "
                                       f"should be {sorted(t.__name__ for t in survivors)}")
    # and the verdicts on scalar probes follow
    for v in (True, 3, 2.5, 1j):
        want = "True" if any(isinstance(v, t) for t in survivors) else "False"
        if accepts(ann, v) != want and not with_array:
            raise Violation("S-law", case, f"isinstance({v!r}, {ann!r}) = {accepts(ann, v)}, expected {want}")


# ---------------------------------------------------------------------------------------- law A
def law_aliases(ctx):
    import jax
    from jax.typing import ArrayLike

    pairs = [
        ("Scalar", jaxtyping.Scalar, Shaped[jax.Array, ""]),
        ("ScalarLike", jaxtyping.ScalarLike, Shaped[ArrayLike, ""]),
        ("PRNGKeyArray", jaxtyping.PRNGKeyArray, Union[Key[jax.Array, ""], UInt32[jax.Array, "2"]]),
        ("Shaped[PRNGKeyArray,'2']", Shaped[jaxtyping.PRNGKeyArray, "2"], Union[Key[jax.Array, "2"], UInt32[jax.Array, "2 2"]]),
        ("Int[Scalar,'']", jaxtyping.Int[jaxtyping.Scalar, ""], jaxtyping.Int[jax.Array, ""]),
    ]
    for name, got, ref in pairs:
        vg, vr = vec(got, "jax"), vec(ref, "jax")
        ctx.note(["alias", name], True, classes=["law-A"], sample={"law": "alias", "name": name})
        if vg != vr:
            raise Violation("A-law", {"law": "A", "alias": name}, f"{name} differs from its documented definition: {first_diff(vg, vr, 'jax')}")
    # documented sanity of the definitions themselves
    k = jax.random.key(0)
    with jaxtyping.jaxtyped("context"):
        if not (accepts(jaxtyping.PRNGKeyArray, k) == "True" and accepts(jaxtyping.PRNGKeyArray, jax.random.PRNGKey(0)) == "True"
                and accepts(jaxtyping.PRNGKeyArray, jax.numpy.zeros((2,))) == "False" and accepts(jaxtyping.Scalar, jax.numpy.zeros(())) == "True"
                and accepts(jaxtyping.Scalar, jax.numpy.zeros((1,))) == "False" and accepts(jaxtyping.ScalarLike, 2.5) == "True"):
            raise Violation("A-law", {"law": "A", "alias": "sanity"}, "Scalar/ScalarLike/PRNGKeyArray do not accept/reject the documented examples")


ALIAS_FAULT_SCRIPT = r'''
import json, sys, typing
from typing import Union
first_names = json.loads(sys.argv[1])
sys.modules["jax"] = None            # injected fault: `import jax` raises ImportError for now
import jaxtyping
first = {}
for name in first_names:
    try:
        getattr(jaxtyping, name); first[name] = "returned"
    except ImportError:
        first[name] = "ImportError"
    except BaseException as e:
        first[name] = "raised " + type(e).__name__
del sys.modules["jax"]               # the fault is gone
import jax, jax.numpy as jnp, jax.random as jr, jax.typing, numpy as np
from jaxtyping import Key, Shaped, UInt32
probes = {"jnp f32 scalar": jnp.array(1.0), "jnp i32 scalar": jnp.array(1), "jnp vector": jnp.zeros(3), "np 0-d": np.array(1.0), "np vector": np.zeros(3),
          "np.float32": np.float32(1), "float": 1.0, "int": 1, "bool": True, "complex": 1j, "new-style key": jr.key(0), "old-style key": jr.PRNGKey(0),
          "uint32[2]": jnp.zeros(2, dtype="uint32"), "str": "x", "None": None}
def verdicts(ann):
    if typing.get_origin(ann) is Union:
        ann = typing.get_args(ann)
    return {k: isinstance(v, ann) for k, v in probes.items()}
documented = {"Scalar": Shaped[jax.Array, ""], "ScalarLike": Shaped[jax.typing.ArrayLike, ""], "PRNGKeyArray": Union[Key[jax.Array, ""], UInt32[jax.Array, "2"]]}
out = {"first": first, "diff": {}}
for name, doc in documented.items():
    try:
        got, want = verdicts(getattr(jaxtyping, name)), verdicts(doc)
        d = [f"{k}: alias {got[k]}, definition {want[k]}" for k in probes if got[k] != want[k]]
    except BaseException as e:
        d = [f"raised {type(e).__name__}: {e}"]
    if d:
        out["diff"][name] = d
print("VF15ALIAS" + json.dumps(out))
'''


def law_aliases_after_import_fault(ctx):
    """Law A over a history with an injected fault: the first request for an alias is made while `import jax` fails (a path fixed up
    later in the session); once JAX imports, every alias is its documented definition."""
    import json
    import os
    import subprocess
    import sys

    orders = [list(p_) for k in (1, 2, 3) for p_ in itertools.permutations(["Scalar", "ScalarLike", "PRNGKeyArray"], k)]
    if ctx.tier == "quick":
        orders = [orders[i] for i in (0, 1, 2, 9)]
    for order in orders:
        r = subprocess.run([sys.executable, "-W", "ignore", "-c", ALIAS_FAULT_SCRIPT, json.dumps(order)], capture_output=True, text=True, timeout=300, env=dict(os.environ))
        line = [l for l in r.stdout.splitlines() if l.startswith("VF15ALIAS")]
        if not line:
            raise HarnessError(f"alias fault subprocess failed: {(r.stdout + r.stderr)[-400:]}")
        out = json.loads(line[0][len("VF15ALIAS"):])
        ctx.note(["alias-after-import-fault", order], True, classes=["law-A-after-import-fault"], sample={"law": "alias after a failed `import jax`", "first_requests": out["first"]})
        if out["diff"]:
            raise Violation("A-law", {"law": "A-fault", "first": order},
                            f"aliases first requested while `import jax` was failing ({out['first']}), requested again after JAX became importable: {out['diff']}")


FIXED_SPEC_PAIRS = [("c", "b", False, False), ("... c", "b", True, False), ("", "*v 3", False, True), ("... c", "*v b", True, True)]
RANK0 = [("", True), ("...", True), ("*v", True), ("*#v", True), ("a", False), ("... a", False), ("3", False), ("_", False), ("*v a", False)]


def run(ctx):
    # ---- law N: exhaustive category pairs
    pairs = list(itertools.product(CATS, CATS))
    try:
        for i, (c1, c2) in enumerate(pairs):
            if i % ctx.nshards != ctx.shard:
                continue
            for j, (s1, s2, m1, m2) in enumerate(FIXED_SPEC_PAIRS):
                if ctx.tier == "quick" and j != (i % 4):
                    # quick: one spec pair per category pair (all three in the thorough tier); building is checked for all
                    kind, ann = build(lambda: getattr(jaxtyping, c2)[getattr(jaxtyping, c1)[np.ndarray, s1], s2])
                    inter = dt.intersect(c1, c2)
                    empty = inter is not None and len(inter) == 0
                    ctx.note({"law": "N-build", "inner": c1, "outer": c2, "s1": s1, "s2": s2}, False, classes=["law-N-build-only"])
                    if (kind == "ValueError") != (empty or (m1 and m2)) or kind == "other":
                        raise Violation("N-should-raise" if kind == "ok" else "N-should-build", {"law": "N", "inner": c1, "outer": c2, "s1": s1, "s2": s2, "at": "np"},
                                        f"{c2}[{c1}[A,{s1!r}],{s2!r}]: {kind}; empty intersection={empty}")
                    continue
                law_nesting(ctx, c1, c2, s1, s2, m1, m2)
    except Violation as v:
        ctx.record(v)
    ctx.extra["category_pairs_enumerated"] = len([1 for i in range(len(pairs)) if i % ctx.nshards == ctx.shard])

    spec_st = gd.legal_spec(max_axes=3, bound=["a"], names=["a", "b"], vnames=["v"], multi_prob=0.45)

    @given(st.sampled_from(CATS), st.sampled_from(CATS), spec_st, spec_st, st.sampled_from(["np", "np", "any"]))
    def nesting(c1, c2, t1, t2, at):
        obs.reset_state()
        law_nesting(ctx, c1, c2, dl.spec_spelling(t1), dl.spec_spelling(t2), any(t.is_multi() for t in t1), any(t.is_multi() for t in t2), at)

    ctx.hyp(nesting, max_examples=ctx.n(120, 1200))

    wide = st.sampled_from(["Shaped", "Num", "Real", "Inexact", "Integer", "Float", "Shaped", "Int"] + CATS)

    @given(wide, wide, wide, st.permutations(["a", "b", "3", "c", "_", "#a"]))
    def nesting3(c1, c2, c3, axes):
        obs.reset_state()
        law_nesting3(ctx, c1, c2, c3, axes[0], axes[1], axes[2])

    ctx.hyp(nesting3, max_examples=ctx.n(120, 1200))

    @given(st.sampled_from(["Float", "Shaped", "Int", "Num", "Bool", "Float32", "UInt8", "Key"] + CATS), spec_st,
           st.sampled_from(["Union-nested", "Union", "Union-rev", "bar", "bar-nested", "union3", "tv-plain", "tv-bound", "tv-bound-union", "tv-constrained", "tv-constrained-union", "tv-constrained-bar", "tv-constrained-scalar"]
                           + (["tv-bound-default", "tv-plain-default", "tv-constrained-default"] if T_PLAIN_DEFAULT is not None else [])))
    def union_typevar(cat, toks, form):
        obs.reset_state()
        law_union_typevar(ctx, cat, dl.spec_spelling(toks), form)

    ctx.hyp(union_typevar, max_examples=ctx.n(100, 1000))

    # ---- law S: complete product (small)
    try:
        for i, (cat, sk, (spec, rank0), in_union) in enumerate(itertools.product(CATS, SCALARS, RANK0, (False, True))):
            if i % ctx.nshards != ctx.shard:
                continue
            law_scalar(ctx, cat, sk, spec, rank0, in_union)
    except Violation as v:
        ctx.record(v)
    # ---- law S2: ordered pairs of scalar types
    try:
        for i, (cat, sk1, sk2, (spec, rank0), wa) in enumerate(itertools.product(CATS, SCALARS, SCALARS, RANK0[:5], (False, True))):
            if sk1 == sk2 or i % ctx.nshards != ctx.shard:
                continue
            law_scalar_pair(ctx, cat, sk1, sk2, spec, rank0, wa)
    except Violation as v:
        ctx.record(v)
    # ---- law C: complete product (small)
    try:
        for i, (cat, tname, spec) in enumerate(itertools.product(CATS, CLASS_TYPES, ["", "...", "a", "*v", "_ 2"])):
            if i % ctx.nshards != ctx.shard:
                continue
            law_class(ctx, cat, tname, spec)
    except Violation as v:
        ctx.record(v)
    if ctx.shard == 1 % ctx.nshards:
        try:
            law_non_arrays(ctx)
        except Violation as v:
            ctx.record(v)
    if ctx.shard == 0:
        try:
            law_aliases(ctx)
        except Violation as v:
            ctx.record(v)
    if ctx.shard == 2 % ctx.nshards:
        try:
            law_aliases_after_import_fault(ctx)
        except Violation as v:
            ctx.record(v)


def replay(case, clause, ctx):
    try:
        if case.get("law") == "N":
            law_nesting(ctx, case["inner"], case["outer"], case["s1"], case["s2"], has_multi(case["s1"]), has_multi(case["s2"]), case.get("at", "np"))
        elif case.get("law") == "N3":
            law_nesting3(ctx, *case["cats"], *case["specs"])
        elif case.get("law") == "U/T":
            law_union_typevar(ctx, case["cat"], case["spec"], case["form"])
        elif case.get("law") == "S":
            rank0 = dict(RANK0).get(case["spec"], False)
            law_scalar(ctx, case["cat"], case["scalar"], case["spec"], rank0, case["in_union"])
        elif case.get("law") == "NA":
            law_non_arrays(ctx)
        elif case.get("law") == "S2":
            law_scalar_pair(ctx, case["cat"], case["scalars"][0], case["scalars"][1], case["spec"], dict(RANK0).get(case["spec"], False), case["with_array"])
        elif case.get("law") == "C":
            law_class(ctx, case["cat"], case["type"], case["spec"])
        elif case.get("law") == "A-fault":
            law_aliases_after_import_fault(ctx)
        else:
            law_aliases(ctx)
    except Violation as v:
        return str(v)
    return None
