"""C01 -- an array check decides shape exactly as the dim-string language says.

Generated histories of 1..12 isinstance checks inside one checking context (a
jaxtyped("context") block, or a jaxtyped(typechecker=None) call whose arguments feed {arg}
holes).  Oracle: the sequential reference matcher of vf.models.dimlang run on a model context;
after every step the verdict must be one the model allows and the parsed print_bindings() must
equal the model's bindings."""
from __future__ import annotations

from hypothesis import given, strategies as st

import jaxtyping
from jaxtyping import jaxtyped
from vf import obs
from vf.core import Violation
from vf.gen import arrays as ga
from vf.gen import dims as gd
from vf.models import dimlang as dl

ID = "C01"
LEVEL = "exploration"
SHARDS = {"quick": 4, "thorough": 16}
RULE = (
    "Hypothesis draws histories of 1..12 array checks in one context (2 of 5 histories focus on one variadic name: every step is [axis] *v|*#v [axis]): spec = 0..6 constructed legal "
    "tokens (<=1 multi-axis token at any position, all modifier orders, doc= prefixes, symbolic ASTs, "
    "{arg} holes when run inside a jaxtyped(typechecker=None) call), category/array type/dtype with "
    "~12% mismatches, shape derived from spec+model context then mutated w.p. 0.45 (ranks 0..7, sizes "
    "incl. 0 and 1). Non-trivial = spec has >=2 axes and (a variadic with non-empty prefix or suffix, "
    "or '#', or a symbolic axis, or >=1 of its names bound by an earlier accepted check); distinct by "
    "(canonical meanings, shape, category, prior bindings of the names it mentions)."
)
ASSUMPTIONS = [
    "reference matcher vf/models/dimlang.py (written from docs/api/array.md) is the trusted oracle",
    "where an unbound symbolic axis coincides with another reason to reject, both False and AnnotationError are accepted",
    "NumPy, duck-typed and (thorough tier, ~8%) jax.Array values; torch/mlx not installed",
]


class HObj:
    k = gd.HOLE_ATTR[2]


def tok_json(t: dl.Token):
    return [t.mods, t.base_kind, t.base, t.doc, t.docpos]


def _tup(x):
    return tuple(_tup(y) for y in x) if isinstance(x, (list, tuple)) else x


def tok_from_json(j):
    mods, bk, base, doc, docpos = j
    return dl.Token(mods, bk, _tup(base) if bk == "sym" else base, doc, docpos)


_ANN_POOL = {}


def annotation(cat, at, spec):
    """Annotation objects live long in real programs (a function's annotations are built once and checked on
    every call, under ever different bindings): the same object is reused for the same (category, array type,
    spec) across steps, histories and Hypothesis examples of this process."""
    key = (cat, at, spec)
    if key not in _ANN_POOL:
        if len(_ANN_POOL) > 20000:
            _ANN_POOL.clear()
        _ANN_POOL[key] = ga.category(cat)[ga.array_type(at), spec]
    return _ANN_POOL[key]


class History:
    """Real context and model context advanced in lock-step."""

    def __init__(self, ctx, use_args):
        self.ctx = ctx
        self.use_args = use_args
        self.m = dl.MCtx(args=dict(gd.HOLE_ARGS, **{gd.HOLE_ATTR[0]: HObj}) if use_args else {})
        self.steps = []

    def case(self):
        return {"use_args": self.use_args, "steps": self.steps}

    def step(self, s):
        """s: dict(tokens, seps?, cat, at, vk, dtype, shape | nonarray)."""
        self.steps.append(s)
        toks = [tok_from_json(j) for j in s["tokens"]]
        spec = dl.spec_spelling(toks, s.get("seps"))
        meanings = [t.meaning() for t in toks]
        try:
            ann = annotation(s["cat"], s["at"], spec)
        except BaseException as e:  # noqa: BLE001
            raise Violation("build", self.case(), f"building {s['cat']}[{s['at']}, {spec!r}] (a legal spec of the documented grammar) raised {type(e).__name__}: {e}")
        if s.get("nonarray") is not None:
            value = ga.NON_ARRAYS[s["nonarray"]]
            type_ok = dtype_ok = False
        else:
            value, variant = ga.variant_value(ga.make_value(s["vk"], s["shape"], s["dtype"]), s)
            if variant:
                self.ctx.classes[variant] += 1
            type_ok = ga.type_accepts(s["at"], s["vk"])
            from vf.models import dtypes as dt

            dtype_ok = dt.accepts(s["cat"], s["dtype"])
        before = obs.bindings()[0]
        if before != self.m.bindings():
            raise Violation("bindings-before", self.case(), f"print_bindings {before} != model {self.m.bindings()}")
        got = obs.verdict(value, ann)
        if type_ok and dtype_ok:
            out = dl.match(meanings, s["shape"], self.m)
            allowed = set(out.allowed)
        else:
            out = None
            allowed = {dl.FALSE}
        if got not in allowed:
            raise Violation(
                "verdict", self.case(),
                f"isinstance(value shape={s.get('shape')} dtype={s.get('dtype')} kind={s.get('vk')}, "
                f"{s['cat']}[{s['at']}, {spec!r}]) gave {got}, reference allows {sorted(allowed)}; "
                f"bindings before: {before}",
            )
        if got == dl.TRUE:
            prior = {k: v for k, v in self.m.bindings().items()}
            self.m = out.ctx
        after = obs.bindings()[0]
        if after != self.m.bindings():
            raise Violation(
                "bindings-after", self.case(),
                f"after verdict {got} for {spec!r} on {s.get('shape')}: print_bindings {after} != model {self.m.bindings()}",
            )
        # accounting
        if out is not None:
            names = set()
            for mm in meanings:
                if mm[0] in ("named", "namedvar"):
                    names.add(mm[1])
                elif mm[0] == "sym":
                    names |= dl.expr_names(mm[1])
            proj = sorted((k, v) for k, v in before.items() if k.lstrip("*") in names)
            cls = set(out.classes)
            nontrivial = len(meanings) >= 2 and (
                bool(cls & {"var-prefix", "var-suffix", "bcast-1", "sym", "sym-bcast"})
                or any(mm[0] != "anon" and mm[0] != "anonvar" and mm[0] != "sym" and len(mm) > 2 and mm[2] for mm in meanings)
                or bool(proj)
            )
            self.ctx.note(
                [[list(map(str, mm)) for mm in meanings], s["shape"], s["cat"], proj],
                nontrivial,
                classes=list(cls) + [f"verdict-{got}", f"rank-{min(len(s['shape']), 6)}"],
                sample={"spec": spec, "shape": s["shape"], "category": s["cat"], "array_type": s["at"],
                        "dtype": s["dtype"], "bindings_before": before, "verdict": got},
            )
        else:
            self.ctx.note(None, False, classes=["type-or-dtype-reject"])


def in_context(use_args, body):
    obs.reset_state()
    if use_args:

        @jaxtyped(typechecker=None)
        def f(hn, hm, hobj, n, a):
            return body()

        return f(gd.HOLE_ARGS["hn"], gd.HOLE_ARGS["hm"], HObj, gd.HOLE_ARGS["n"], gd.HOLE_ARGS["a"])
    with jaxtyped("context"):
        return body()


# a small family of specs without any plain named axis (their verdict depends on the context only through symbolic
# axes): the same annotation object is met again and again with the same few shapes under different bindings
_S = lambda e, mods="": dl.Token(mods, "sym", e)  # noqa: E731
CONTEXT_ONLY_SPECS = [
    [_S(("bin", "+", ("name", "a"), ("int", 1)))],
    [_S(("bin", "*", ("int", 2), ("name", "a")))],
    [_S(("bin", "+", ("name", "a"), ("name", "b")))],
    [_S(("bin", "-", ("name", "a"), ("int", 1))), dl.Token("", "int", 3)],
    [dl.Token("_", "empty", None), _S(("bin", "+", ("name", "a"), ("int", 1)))],
    [_S(("bin", "+", ("name", "n"), ("int", 1)), "#")],
    [dl.Token("", "ellipsis", None), _S(("call", "max", ("name", "a"), ("name", "b")))],
]


def draw_focus_step(data, hist: History):
    """Variadic-focused histories: every step is [axis] (*v | *#v) [axis] over ONE variadic name, so that sequences of three
    and more uses with all flag combinations (b,p,p / b,b,p / p,b,b ...) and rank changes are common."""
    T = dl.Token
    pre = [T(data.draw(st.sampled_from(["", "#"])), "name", data.draw(st.sampled_from(["a", "b"])))] if data.draw(st.integers(0, 2)) == 0 else []
    suf = [T(data.draw(st.sampled_from(["", "#"])), "name", data.draw(st.sampled_from(["a", "b"])))] if data.draw(st.integers(0, 2)) == 0 else []
    var = T(data.draw(st.sampled_from(["*#", "*", "#*", "*"])), "name", hist.focus_name)
    toks = pre + [var] + suf
    shape, _ = data.draw(gd.shape_for(gd.meanings_of(toks), hist.m, mutate_prob=0.25), label="shape")
    return {"tokens": [tok_json(t) for t in toks], "cat": "Shaped", "at": "np", "vk": "np", "dtype": "float32", "shape": list(shape)}


def draw_step(data, hist: History, *, jax_ok=False, allow_q_prob=0.1):
    m = hist.m
    if getattr(hist, "focus_name", None) and data.draw(st.integers(0, 4)) != 0:
        return draw_focus_step(data, hist)
    if gd.chance(data.draw, 0.1):
        toks = data.draw(st.sampled_from(CONTEXT_ONLY_SPECS), label="context-only spec")
        shape = data.draw(st.sampled_from([(4,), (3,), (2,), (4, 3), (3, 3), (1,)]))
        if len(toks) == 2 and len(shape) == 1:
            shape = shape + (3,)
        return {"tokens": [tok_json(t) for t in toks], "cat": "Shaped", "at": "np", "vk": "np", "dtype": "float32", "shape": list(shape)}
    allow_q = gd.chance(data.draw, allow_q_prob)
    toks = data.draw(
        gd.legal_spec(bound=sorted(m.single), holes=hist.use_args, allow_q=allow_q), label="spec"
    )
    meanings = gd.meanings_of(toks)
    seps = None
    if data.draw(st.integers(0, 5)) == 0:
        seps = gd.whitespace_seps(data.draw, len(toks))
    s = {"tokens": [tok_json(t) for t in toks]}
    if seps is not None:
        s["seps"] = seps
    if data.draw(st.integers(0, 29)) == 0:
        cat, at = data.draw(st.sampled_from(ga.COMMON_CATS)), data.draw(st.sampled_from(["np", "any", "duck"]))
        s.update(cat=cat, at=at, nonarray=data.draw(st.integers(0, len(ga.NON_ARRAYS) - 1)))
        return s
    cat, at, vk, dn, _, _ = data.draw(ga.typed_value_plan(jax_ok=jax_ok), label="types")
    shape, _ = data.draw(gd.shape_for(meanings, m), label="shape")
    s.update(cat=cat, at=at, vk=vk, dtype=dn, shape=list(shape))
    return s


def run(ctx):
    jax_ok = ctx.tier == "thorough"

    @given(st.data())
    def histories(data):
        use_args = data.draw(st.integers(0, 3)) == 0
        hist = History(ctx, use_args)
        hist.focus_name = data.draw(st.sampled_from([None, None, "v", None, "a"]))  # 2 of 5 histories are variadic-focused

        def body():
            n = data.draw(st.integers(1, 12), label="steps")
            for _ in range(n):
                hist.step(draw_step(data, hist, jax_ok=jax_ok))

        in_context(use_args, body)
        if obs.stack_depth() != 0:
            raise Violation("stack", hist.case(), "context stack not empty after the history")

    ctx.hyp(histories, max_examples=ctx.n(500, 2500))


def replay(case, clause, ctx):
    hist = History(ctx, case["use_args"])

    def body():
        for s in case["steps"]:
            hist.step(dict(s))

    try:
        in_context(case["use_args"], body)
    except Violation as v:
        return str(v)
    return None
