"""C03 -- dtype categories accept exactly the documented dtypes, on every backend.

Complete enumeration (itertools.product) of (dtype, category, backend): the dtype universe is
every concrete NumPy scalar type (incl. platform aliases), every ml_dtypes type, the JAX key
dtypes of every PRNG implementation, structured dtypes; categories are the 34 exported classes
plus generated user categories; backends NumPy / jax.Array / jit tracer / key arrays /
TensorFlow (thorough) / duck arrays with string, torch-style and NumPy dtypes.
Oracle: hand-typed table vf/models/dtypes.py keyed by a canonical dtype name computed without
jaxtyping."""
from __future__ import annotations

import itertools
import re
from typing import Any

import numpy as np

import jaxtyping
from jaxtyping import AbstractDtype, make_numpy_struct_dtype
from vf import obs
from vf.core import Violation
from vf.models import dtypes as dt
from vf.obs import Duck, EnumLikeDtype, TorchLikeDtype

ID = "C03"
LEVEL = "exploration"
SHARDS = {"quick": 1, "thorough": 1}
RULE = (
    "Complete enumeration of the finite space (dtype x category x backend): every concrete numpy scalar type "
    "(np.sctypeDict incl. longlong/ulonglong/intc/longdouble/clongdouble, str_, bytes_, void, object_, datetime64, "
    "timedelta64), 10 dtypes with an explicit (non-native / native) byte order, all 16 ml_dtypes types, key dtypes of the 3 PRNG impls, 11 structured dtypes (two of equal width, one aligned, one with upper-case codes, nested-field and sub-array-field look-alikes of equal size) and raw V2; 34 exported classes "
    "+ 24 user categories (strings, regexes, mixed, case-sensitive names, one per structured dtype); backends numpy, jax.Array, jax tracer (eval_shape and jit), "
    "key arrays, duck(str dtype), duck(torch-style repr 'torch.<name>', mlx-style repr 'mlx.core.<name>', enum-style 'paddle.<name>' with a .name attribute), duck(numpy dtype), TensorFlow tensors. A backend is "
    "crossed with a dtype when it can actually produce an array of it (measured). Every triple is non-trivial; distinct by "
    "(canonical dtype name, source type, category, backend)."
)
ASSUMPTIONS = [
    "documented hierarchy typed by hand in vf/models/dtypes.py from docs/api/array.md; Float includes the five exported Float8* names",
    "undocumented dtypes (float128/longdouble, complex256, newer ml_dtypes floats, str/bytes/void/object/datetime) are expected to be accepted by Shaped only",
    "user categories are judged on documented dtype names and structured dtypes only (name of an undocumented alias is not specified); "
    "user categories never mention 'bool', whose NumPy-1.x name is ambiguous ('bool' vs 'bool_': the built-in Bool lists both)",
    "PyTorch and MLX are not installed: represented by duck arrays whose dtype repr is 'torch.<name>'",
]


# structured dtypes: two of the same width, one with upper-case type codes / field names, one aligned
STRUCTS = {
    "struct1": np.dtype([("first", np.uint8), ("second", np.int8)]),
    "struct1b": np.dtype([("x", np.int8), ("y", np.uint8)]),
    "struct1c": np.dtype([("second", np.int8), ("first", np.uint8)]),
    "struct2": np.dtype([("x", np.float32), ("y", np.float32, (2,))]),
    "structUpper": np.dtype([("Name", "S3"), ("When", "M8[s]"), ("u", "U2")]),
    "structAligned": np.dtype({"names": ["a", "b"], "formats": ["u1", "f4"]}, align=True),
    # same field names and byte sizes, differing only inside a nested structured field / in the base type of a sub-array field
    "structNestA": np.dtype([("h", [("x", "i4"), ("y", "f4")]), ("t", "u1")]),
    "structNestB": np.dtype([("h", [("p", "f8")]), ("t", "u1")]),
    "structSubA": np.dtype([("v", "i4", (2,))]),
    "structSubB": np.dtype([("v", "f4", (2,))]),
    "structSubC": np.dtype([("v", "i2", (4,))]),
    # wide records (str() well over 100 characters) that differ only in their last field / by one trailing field
    "structWideA": np.dtype([(f"measurement_channel_{i}", "f4") for i in range(7)] + [("tail", "i4")]),
    "structWideB": np.dtype([(f"measurement_channel_{i}", "f4") for i in range(7)] + [("tail", "f4")]),
    "structWideC": np.dtype([(f"measurement_channel_{i}", "f4") for i in range(7)] + [("tail", "i4"), ("extra", "u1")]),
}


def numpy_universe():
    seen = {}
    for t in set(np.sctypeDict.values()):
        seen[t.__name__] = t
    import ml_dtypes

    for n in dir(ml_dtypes):
        o = getattr(ml_dtypes, n)
        if isinstance(o, type) and issubclass(o, np.generic):
            seen[n] = o
    out = []
    for name, t in sorted(seen.items()):
        try:
            d = np.dtype(t)
        except TypeError:
            continue
        out.append((f"np.{name}", d))
    for name, d in STRUCTS.items():
        out.append((name, d))
    out.append(("rawV2", np.dtype("V2")))
    # explicit byte orders (data read from files / sockets): the same dtypes as far as categories are concerned
    for code in (">f4", "<f4", ">f8", ">i4", ">u2", ">i8", ">c8", ">f2", "=i2", "|b1"):
        out.append((f"byteorder {code}", np.dtype(code)))
    return out


def _define_user_categories():
    """User categories are defined through the public API (AbstractDtype subclasses, make_numpy_struct_dtype); defining them must work."""
    class U_f32i8(AbstractDtype):
        dtypes = ["float32", "int8"]


    class U_single(AbstractDtype):
        dtypes = "uint16"


    class U_re_float(AbstractDtype):
        dtypes = re.compile("float.*")


    class U_re_int_anch(AbstractDtype):
        dtypes = [re.compile("int(8|16)$")]


    class U_mixed(AbstractDtype):
        dtypes = ("uint8", re.compile("complex"), "bfloat16")


    class U_flags_later(AbstractDtype):
        dtypes = [re.compile("zzz"), re.compile("FLOAT32", re.IGNORECASE)]  # every pattern keeps its own flags


    class U_flags_first(AbstractDtype):
        dtypes = [re.compile("COMPLEX64", re.IGNORECASE), re.compile("Int8")]


    class U_backref(AbstractDtype):
        dtypes = [re.compile("(u)int(8)"), re.compile(r"(float|int)(16|32)$"), re.compile(r"(complex)\d+$")]


    class U_re_mid(AbstractDtype):
        dtypes = re.compile("loat")  # re.match anchors at the start: matches nothing documented


    class U_tuple(AbstractDtype):
        dtypes = ("int2", "uint4", "float8_e5m2")


    class U_key(AbstractDtype):
        dtypes = ["prng_key"]


    class U_upper(AbstractDtype):
        dtypes = ["Q4_K", "bFloat"]


    class U_lower(AbstractDtype):
        dtypes = ["q4_k"]


    class U_generator(AbstractDtype):
        dtypes = (d for d in ["float16", "uint32"])  # any iterable of names: a one-shot generator


    class U_map(AbstractDtype):
        dtypes = map(str.lower, ["INT16", "Complex128"])


    class U_dictkeys(AbstractDtype):
        dtypes = {"int64": None, "float64": None}.keys()


    # categories made by subclassing an existing category: the dtypes are inherited (plain class inheritance) unless declared again
    class U_sub_float(jaxtyping.Float):
        pass


    class U_sub_user(U_re_int_anch):
        """a documented alias"""


    class U_sub_redeclared(jaxtyping.Float):
        dtypes = ["int8", "float16"]


    STRUCT1 = STRUCTS["struct1"]
    U_struct = make_numpy_struct_dtype(STRUCT1, "U_struct")

    USER = {
        "U_f32i8": (U_f32i8, lambda n: n in ("float32", "int8")),
        "U_single": (U_single, lambda n: n == "uint16"),
        "U_re_float": (U_re_float, lambda n: re.match("float.*", n) is not None),
        "U_re_int_anch": (U_re_int_anch, lambda n: re.match("int(8|16)$", n) is not None),
        "U_mixed": (U_mixed, lambda n: n in ("uint8", "bfloat16") or re.match("complex", n) is not None),
        "U_flags_later": (U_flags_later, lambda n: n.lower() == "float32" or n.startswith("zzz")),
        "U_flags_first": (U_flags_first, lambda n: n.lower().startswith("complex64") or n.startswith("Int8")),
        "U_backref": (U_backref, lambda n: re.match("(u)int(8)", n) is not None or re.match(r"(float|int)(16|32)$", n) is not None or re.match(r"(complex)\d+$", n) is not None),
        "U_re_mid": (U_re_mid, lambda n: re.match("loat", n) is not None),
        "U_tuple": (U_tuple, lambda n: n in ("int2", "uint4", "float8_e5m2")),
        "U_key": (U_key, lambda n: n == "prng_key"),
        "U_struct": (U_struct, lambda n: n == str(STRUCT1)),
        "U_upper": (U_upper, lambda n: n in ("Q4_K", "bFloat")),
        "U_lower": (U_lower, lambda n: n == "q4_k"),
        "U_generator": (U_generator, lambda n: n in ("float16", "uint32")),
        "U_map": (U_map, lambda n: n in ("int16", "complex128")),
        "U_dictkeys": (U_dictkeys, lambda n: n in ("int64", "float64")),
        "U_sub_float": (U_sub_float, lambda n: dt.accepts("Float", n)),
        "U_sub_user": (U_sub_user, lambda n: re.match("int(8|16)$", n) is not None),
        "U_sub_redeclared": (U_sub_redeclared, lambda n: n in ("int8", "float16")),
    }
    for _n, _d in STRUCTS.items():
        if _n != "struct1":
            USER["U_" + _n] = (make_numpy_struct_dtype(_d, "U_" + _n), (lambda n, _s=str(_d): n == _s))
    return USER, STRUCT1


try:
    USER, STRUCT1 = _define_user_categories()
    USER_BUILD_ERROR = None
except Exception as _e:  # noqa: BLE001  (reported as a violation by run(): every one of these definitions is documented usage)
    USER, STRUCT1, USER_BUILD_ERROR = {}, STRUCTS["struct1"], _e
# names that only duck arrays carry (escape hatch for user array types, docs/api/array.md "Duck-type arrays")
DUCK_ONLY_NAMES = ["Q4_K", "q4_k", "bFloat", "bfloat", "my_dtype", "Complex64", "FLOAT32", "Int8", "int8x"]
DOCUMENTED = set().union(*[s for s in dt.TABLE.values() if s is not None])


def expected(cat: str, canon: str):
    """True/False, or None when unspecified (user category on an undocumented dtype name)."""
    if cat in dt.TABLE:
        return dt.accepts(cat, canon)
    if canon in DOCUMENTED or canon.startswith(("[", "{")) or canon in DUCK_ONLY_NAMES:
        return USER[cat][1](canon)
    return None


def cat_class(cat):
    return getattr(jaxtyping, cat) if cat in dt.TABLE else USER[cat][0]


def run(ctx):
    if USER_BUILD_ERROR is not None:
        ctx.record(Violation("category-build", {"user_categories": "definition"},
                             f"defining the user dtype categories (AbstractDtype subclasses with string / regex / iterable dtypes, make_numpy_struct_dtype) raised "
                             f"{type(USER_BUILD_ERROR).__name__}: {USER_BUILD_ERROR}"))
    import jax
    import jax.numpy as jnp

    cats = list(dt.CATEGORIES) + list(USER)
    skipped = {}
    triples = 0

    def decide(cat, canon, src, backend, value, at, inside=None):
        nonlocal triples
        exp = expected(cat, canon)
        ann = cat_class(cat)[at, "..."]
        got = obs.verdict(value, ann)
        triples += 1
        ctx.note([canon, src, cat, backend], True, classes=[f"backend-{backend}", f"got-{got}"],
                 sample={"dtype": canon, "source": src, "category": cat, "backend": backend, "accepted": got})
        if exp is None:
            ctx.classes["unspecified-usercat-on-undocumented"] += 1
            if got not in ("True", "False"):
                raise Violation("totality", {"dtype": canon, "source": src, "category": cat, "backend": backend}, f"got {got}")
            return
        if got != str(exp):
            raise Violation(
                "dtype-verdict", {"dtype": canon, "source": src, "category": cat, "backend": backend},
                f"isinstance({backend} array of dtype {canon} (from {src}), {cat}[..., '...']) = {got}, documented hierarchy says {exp}",
            )

    def guarded(fn):
        try:
            fn()
        except Violation as v:
            ctx.record(v)

    universe = numpy_universe()
    ctx.extra["dtype_universe"] = [f"{s}->{dt.canonical_numpy(d)}" for s, d in universe][:12]
    ctx.extra["n_dtypes_numpy"] = len(universe)

    # ---- numpy + ducks
    for src, d in universe:
        canon = dt.canonical_numpy(d)
        try:
            arr = np.zeros((2,), dtype=d)
        except Exception as e:  # measured: backend cannot produce it
            skipped[f"numpy:{src}"] = type(e).__name__
            continue
        for cat in cats:
            guarded(lambda: decide(cat, canon, src, "numpy", arr, np.ndarray))
            guarded(lambda: decide(cat, canon, src, "numpy-Any", arr, Any))
            guarded(lambda: decide(cat, canon, src, "duck-npdtype", Duck((2,), d), Duck))
            if d.names is None:
                guarded(lambda: decide(cat, canon, src, "duck-str", Duck((2,), canon), Duck))
                guarded(lambda: decide(cat, canon, src, "duck-torchstyle", Duck((2,), TorchLikeDtype(canon)), Any))
                guarded(lambda: decide(cat, canon, src, "duck-mlxstyle", Duck((2,), TorchLikeDtype(canon, "mlx.core.")), Any))
                guarded(lambda: decide(cat, canon, src, "duck-enumstyle", Duck((2,), EnumLikeDtype(canon)), Any))

    # ---- duck arrays with names no array library uses (user categories must match them exactly)
    for nm in DUCK_ONLY_NAMES:
        for cat in cats:
            guarded(lambda: decide(cat, nm, "duck-only", "duck-str", Duck((2,), nm), Duck))
            guarded(lambda: decide(cat, nm, "duck-only", "duck-torchstyle", Duck((2,), TorchLikeDtype(nm)), Any))

    # ---- jax arrays and tracers (the dtype jax actually produces is what counts)
    jax_seen = set()
    for src, d in universe:
        if d.names is not None:
            continue
        try:
            arr = jnp.zeros((2,), dtype=d)
        except Exception as e:
            skipped[f"jax:{src}"] = type(e).__name__
            continue
        canon = dt.canonical_numpy(arr.dtype)
        if canon in jax_seen:
            continue
        jax_seen.add(canon)
        for cat in cats:
            guarded(lambda: decide(cat, canon, src, "jax", arr, jax.Array))
        # tracers: evaluate all categories inside one trace each
        got_es, got_jit = {}, {}

        def body(x, sink):
            for cat in cats:
                sink[cat] = obs.verdict(x, cat_class(cat)[jax.Array, "..."])
            return x

        try:
            jax.eval_shape(lambda x: body(x, got_es), arr)
            jax.jit(lambda x: body(x, got_jit))(arr)
        except Exception as e:
            skipped[f"tracer:{src}"] = f"{type(e).__name__}: {e}"[:80]
            continue
        for backend, sink in (("tracer-eval_shape", got_es), ("tracer-jit", got_jit)):
            for cat in cats:
                exp = expected(cat, canon)
                triples += 1
                ctx.note([canon, src, cat, backend], True, classes=[f"backend-{backend}"])
                if exp is not None and sink.get(cat) != str(exp):
                    ctx.record(Violation("dtype-verdict", {"dtype": canon, "source": src, "category": cat, "backend": backend},
                                         f"{backend} of dtype {canon}: {cat} gave {sink.get(cat)}, documented {exp}"))

    # ---- PRNG keys
    for impl in ("threefry2x32", "rbg", "unsafe_rbg"):
        try:
            key = jax.random.key(0, impl=impl)
        except Exception as e:
            skipped[f"key:{impl}"] = type(e).__name__
            continue
        assert jax.dtypes.issubdtype(key.dtype, jax.dtypes.prng_key)
        ks = jax.random.split(key, 3)
        for cat in cats:
            guarded(lambda: decide(cat, "prng_key", f"key<{impl}>", "jax-key", key, jax.Array))
            guarded(lambda: decide(cat, "prng_key", f"key<{impl}>", "jax-key-batched", ks, jax.Array))
        sink = {}

        def kbody(k):
            for cat in cats:
                sink[cat] = obs.verdict(k, cat_class(cat)[jax.Array, "..."])
            return k

        jax.jit(kbody)(key)
        for cat in cats:
            exp = expected(cat, "prng_key")
            triples += 1
            ctx.note(["prng_key", impl, cat, "tracer-key"], True, classes=["backend-tracer-key"])
            if sink.get(cat) != str(exp):
                ctx.record(Violation("dtype-verdict", {"dtype": "prng_key", "source": impl, "category": cat, "backend": "tracer-key"},
                                     f"traced key<{impl}>: {cat} gave {sink.get(cat)}, documented {exp}"))
    old = jax.random.PRNGKey(0)
    for cat in cats:
        guarded(lambda: decide(cat, "uint32", "PRNGKey", "jax-oldkey", old, jax.Array))

    # ---- TensorFlow
    if True:  # both tiers (import costs ~4 s)
        try:
            import tensorflow as tf

            tfd = []
            for n in dir(tf.dtypes):
                o = getattr(tf.dtypes, n)
                if isinstance(o, tf.dtypes.DType):
                    tfd.append(o)
            n_tf = 0
            for d in sorted(set(tfd), key=lambda d: d.name):
                if d.name.startswith("q") or d.name in ("resource", "variant") or d.name.endswith("_ref"):
                    skipped[f"tf:{d.name}"] = "no numpy name (quantized/resource/variant)"
                    continue
                try:
                    t = tf.zeros((2,), dtype=d) if d.name != "string" else tf.constant(["a", "b"])
                except Exception as e:
                    skipped[f"tf:{d.name}"] = type(e).__name__
                    continue
                canon = d.name if d.name != "string" else "tf_string"
                if canon == "half":
                    canon = "float16"
                if canon == "double":
                    canon = "float64"
                n_tf += 1
                for cat in cats:
                    guarded(lambda: decide(cat, canon, f"tf.{d.name}", "tensorflow", t, tf.Tensor))
            ctx.extra["n_dtypes_tensorflow"] = n_tf
        except ImportError:
            skipped["tensorflow"] = "not importable"

    ctx.extra["skipped_pairs"] = [f"{k}: {v}" for k, v in sorted(skipped.items())][:12]
    ctx.extra["n_skipped_pairs"] = len(skipped)
    ctx.extra["triples"] = triples
    ctx.extra["exhaustive"] = True


def replay(case, clause, ctx):
    import jax
    import jax.numpy as jnp

    canon, cat, backend, src = case["dtype"], case["category"], case["backend"], case["source"]
    exp = expected(cat, canon)
    if src.startswith(("np.", "struct", "rawV")):
        d = dict(numpy_universe())[src]
    else:
        d = None
    if backend == "numpy":
        v, at = np.zeros((2,), dtype=d), np.ndarray
    elif backend == "numpy-Any":
        v, at = np.zeros((2,), dtype=d), Any
    elif backend == "duck-npdtype":
        v, at = Duck((2,), d), Duck
    elif backend == "duck-str":
        v, at = Duck((2,), canon), Duck
    elif backend == "duck-torchstyle":
        v, at = Duck((2,), TorchLikeDtype(canon)), Any
    elif backend == "duck-mlxstyle":
        v, at = Duck((2,), TorchLikeDtype(canon, "mlx.core.")), Any
    elif backend == "duck-enumstyle":
        v, at = Duck((2,), EnumLikeDtype(canon)), Any
    elif backend == "jax":
        v, at = jnp.zeros((2,), dtype=d), jax.Array
    elif backend.startswith("jax-key"):
        v, at = jax.random.key(0, impl=src[4:-1]), jax.Array
    elif backend == "jax-oldkey":
        v, at = jax.random.PRNGKey(0), jax.Array
    else:
        return None  # tracer / tensorflow cases are re-derived by the full run
    got = obs.verdict(v, cat_class(cat)[at, "..."])
    if exp is not None and got != str(exp):
        return f"{backend} dtype {canon}: {cat} gave {got}, documented {exp}"
    return None
