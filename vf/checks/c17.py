"""C17 -- verdicts depend on type, shape and dtype only, so tracing equals eager.

Call cases as in C02 (1..4 jax.Array parameters + optional return annotation, focused variadic /
broadcast modes) are decorated with jaxtyped(typechecker=typeguard|beartype) and called (a) eagerly on
concrete arrays -- with zeros, random and NaN element values --, (b) under jax.jit, jax.vmap (every
in_axes choice incl. None for some arguments), jax.grad / value_and_grad, jax.eval_shape and their
depth-2 compositions, with tracers carrying the same shapes and dtypes.
Oracle: the transformed call raises TypeCheckError iff the eager call does (and iff the order-free
reference solver says so); no Concretization / TracerBoolConversion / TracerArrayConversion error or any
other exception ever; the body is traced exactly once per accepted trace; the eager verdict does not
depend on element values or on the call history of the same decorated function."""
from __future__ import annotations

import warnings

import numpy as np
from hypothesis import given, strategies as st

from jaxtyping import TypeCheckError, jaxtyped
from vf import obs
from vf.core import Violation
from vf.gen import calls as gc
from vf.gen import dims as gd
from vf.models import dimlang as dl

ID = "C17"
LEVEL = "exploration"
SHARDS = {"quick": 4, "thorough": 16}
RULE = (
    "Hypothesis draws C02 call cases (<=4 parameters, sizes<=5, float32) and, per case, a checker, an in_axes assignment (each "
    "argument batched at a drawn axis or None, at least one batched, batch size 2 or 3) and a second in_axes for vmap-of-vmap; "
    "transformations executed: jit, vmap, grad, value_and_grad, eval_shape, jit(vmap), vmap(vmap), jit(grad), vmap(grad), eval_shape(vmap), "
    "plus eager x {zeros, random, NaN} and a repeated eager call. Non-trivial = case with >=2 arguments sharing an axis name under vmap or "
    "a composition, or a rejected case; distinct by (specs, shapes, in_axes)."
)
ASSUMPTIONS = [
    "CPU backend, jax 0.6.2, float32 arrays (grad needs inexact inputs); f-string axes refer to the static shape of an array argument ({x.shape[0]})",
    "a function whose return annotation is violated is compared on 'raises TypeCheckError' only (the failing trace is abandoned by JAX)",
]

BAD = ("ConcretizationTypeError", "TracerBoolConversionError", "TracerArrayConversionError", "TracerIntegerConversionError", "UnexpectedTracerError")


def build(case, ck, counter):
    import jax
    import jax.numpy as jnp

    import jaxtyping
    from jaxtyping import Float

    ns = {"__name__": "vf_generated", "jnp": jnp, "__count": counter}
    parts = []
    arr_t = jax.Array
    if case.get("typevar"):
        # the array type is spelled through a TypeVar (bound, or constrained): shorthand for its bound / the union of its constraints
        import typing

        arr_t = typing.TypeVar("VfArr", bound=jax.Array) if case["typevar"] == "bound" else typing.TypeVar("VfArr", jax.Array, np.ndarray)
    kint = case.get("int_name") or "kint"
    for i, p in enumerate(case["params"]):
        ns[f"A_{p['name']}"] = (getattr(jaxtyping, case.get("cat", "Float")) if i in case.get("cat_params", []) else Float)[arr_t, gc.spec_of(p)]
        # a numeric default (the argument is passed explicitly anyway) on the trailing parameters
        parts.append(f"{p['name']}: A_{p['name']}" + (" = 1.0" if p.get("default") else ""))
    if case.get("int_scalar"):
        # an unrelated 0-d integer argument (a step counter, a seed): it takes no part in any axis
        # (it may be called like an axis of the other annotations: argument names and axis names are different namespaces)
        ns["A_kint"] = jaxtyping.Int[jax.Array, ""]
        ns["A_kfloat"] = Float[jax.Array, ""]
        parts.append(f"{kint}: A_kint" + (" = None" if any(p.get("default") for p in case["params"]) else ""))  # (always passed explicitly)
    if case.get("dataclass"):
        # the decorated callable is a dataclass (its generated __init__ is what gets checked), registered as a PyTree node whose
        # unflatten does not go through __init__ (as equinox / flax-struct style classes do), and handed to the transformations directly
        import dataclasses

        import jax.tree_util as jtu

        ns["dataclasses"] = dataclasses
        body = "\n".join("    " + part for part in parts) or "    pass"
        exec(compile(f"@dataclasses.dataclass\nclass fn:\n{body}\n", "<vf-c17-dc>", "exec", dont_inherit=True), ns)  # (evaluated annotations)
        with warnings.catch_warnings():
            warnings.simplefilter("ignore")
            cls = jaxtyped(typechecker=gc.checker(ck))(ns["fn"])
        names = [f.name for f in dataclasses.fields(cls)]

        def unflatten(_, children):
            obj = object.__new__(cls)
            for n_, c_ in zip(names, children):
                object.__setattr__(obj, n_, c_)
            return obj

        jtu.register_pytree_node(cls, lambda o: (tuple(getattr(o, n_) for n_ in names), None), unflatten)
        return cls
    retstr = ""
    if case["ret"] is not None:
        ns["A_ret"] = Float[arr_t, gc.spec_of(case["ret"])]
        retstr = " -> A_ret"
        shape = tuple(case["ret"]["shape"])
    else:
        shape = ()
    # the result depends on every argument (so that grad has something to differentiate) but has a static shape
    dep = " + ".join([f"jnp.sum({p['name']})" for p in case["params"]] + ([kint] if case.get("int_scalar") else [])) or "0.0"
    # a manual isinstance in the body (dispatch on dtype): a failing check of a scalar is an ordinary False, traced or not
    manual = f"    assert not isinstance({kint}, A_kfloat)\n" if case.get("int_scalar") else ""
    # ... and of every rank-0 float argument against an integer annotation (a weakly typed scalar under grad is a tracer with a concrete primal)
    ns["A_int0"] = jaxtyping.Int[jax.Array, ""]
    for p in case["params"]:
        if p["shape"] == [] and not case.get("dataclass"):
            manual += f"    assert not isinstance({p['name']}, A_int0)\n"
    src = f"def fn({', '.join(parts)}){retstr}:\n    __count.append(1)\n{manual}    return jnp.zeros({shape!r}, dtype='float32') + ({dep}) * 0.0\n"
    gc.exec_source(src, "<vf-c17>", ns)
    with warnings.catch_warnings():
        warnings.simplefilter("ignore")
        return jaxtyped(typechecker=gc.checker(ck))(ns["fn"])


def outcome(thunk):
    try:
        thunk()
        return "ok"
    except TypeCheckError:
        return "TypeCheckError"
    except BaseException as e:  # noqa: BLE001
        return f"{type(e).__name__}: {str(e)[:160]}"


def batched(shape, axis, B):
    s = list(shape)
    s.insert(axis, B)
    return tuple(s)


def check_case(ctx, case):
    import jax
    import jax.numpy as jnp

    obs.reset_state()
    import types as _types

    if case.get("dataclass"):
        case = dict(case, ret=None, params=[dict(p, name=("self_" if p["name"] == "self" else p["name"])) for p in case["params"]])
    is_dc = bool(case.get("dataclass"))
    checks = [(gc.meanings_of(p), p["shape"]) for p in case["params"]]
    if case["ret"] is not None:
        checks.append((gc.meanings_of(case["ret"]), case["ret"]["shape"]))
    ref = dl.satisfiable(checks, args={p["name"]: _types.SimpleNamespace(shape=tuple(p["shape"])) for p in case["params"]})
    if ref is None:
        return
    from vf.models import dtypes as dt

    # all arrays are float32: a parameter annotated with another category is accepted iff that category contains float32
    dtype_ok = (not case.get("cat_params")) or dt.accepts(case.get("cat", "Float"), "float32")
    ref = ref and dtype_ok
    ck = case["checker"]
    counter = []
    f = build(case, ck, counter)
    shapes = [tuple(p["shape"]) for p in case["params"]]
    desc = f"category {case.get('cat')} for parameters {case.get('cat_params')}; params={[(p['name'], gc.spec_of(p), p['shape']) for p in case['params']]} ret={(gc.spec_of(case['ret']), case['ret']['shape']) if case['ret'] else None} checker={ck}"
    rng = np.random.RandomState(0)
    fills = {
        "zeros": [jnp.zeros(s, dtype="float32") for s in shapes],
        # rank-0 arguments are *weakly typed* arrays here (jnp.asarray(0.5)): same shape and dtype, must be treated alike
        "random": [jnp.asarray(np.asarray(rng.randn(*s), dtype="float32")) if s else jnp.asarray(0.5) for s in shapes],
        "nan": [jnp.full(s, np.nan, dtype="float32") for s in shapes],
    }
    nfloat = len(shapes)
    if case.get("int_scalar"):
        fills["zeros"].append(jnp.zeros((), dtype="int32"))
        fills["random"].append(jnp.asarray(5, dtype="int32"))
        fills["nan"].append(jnp.asarray(-1, dtype="int32"))
    results = {}
    for name, args in fills.items():
        counter.clear()
        results[f"eager-{name}"] = outcome(lambda: f(*args))
        if results[f"eager-{name}"] == "ok" and len(counter) != 1 and not is_dc:
            raise Violation("body-count", case, f"eager call ran the body {len(counter)} times; {desc}")
    results["eager-repeat"] = outcome(lambda: f(*fills["zeros"]))
    eager = results["eager-zeros"]
    exp = "ok" if ref else "TypeCheckError"
    if eager != exp:
        raise Violation("eager-vs-reference", case, f"eager call: {eager}, reference solver says {exp}; {desc}")
    for k, v in results.items():
        if v != eager:
            raise Violation("value-or-history-dependence", case, f"{k}: {v} but eager-zeros: {eager}; {desc}")
    args = fills["random"]
    B = case["batch"]
    in_axes = tuple(case["in_axes"]) + ((None,) if case.get("int_scalar") else ())
    bargs = [a if ax is None else jnp.zeros(batched(a.shape, ax, B), dtype="float32") for a, ax in zip(args, in_axes)]
    in_axes2 = tuple(case["in_axes2"]) + ((None,) if case.get("int_scalar") else ())
    bbargs = [a if ax is None else jnp.zeros(batched(a.shape, ax, 2), dtype="float32") for a, ax in zip(bargs, in_axes2)]
    scalar = (lambda *a: sum(jnp.sum(l) for l in jax.tree_util.tree_leaves(f(*a))[:nfloat])) if is_dc else (lambda *a: jnp.sum(f(*a)))  # noqa: E731
    argnums = tuple(range(nfloat))  # (the integer argument is not differentiated)
    trans = {
        "jit": lambda: jax.jit(f)(*args),
        "vmap": lambda: jax.vmap(f, in_axes=in_axes)(*bargs),
        "eval_shape": lambda: jax.eval_shape(f, *[jax.ShapeDtypeStruct(a.shape, a.dtype) for a in args]),
        "grad": lambda: jax.grad(scalar, argnums=argnums)(*args),
        "value_and_grad": lambda: jax.value_and_grad(scalar, argnums=argnums)(*args),
        "jit(vmap)": lambda: jax.jit(jax.vmap(f, in_axes=in_axes))(*bargs),
        "vmap(vmap)": lambda: jax.vmap(jax.vmap(f, in_axes=in_axes), in_axes=in_axes2)(*bbargs),
        "jit(grad)": lambda: jax.jit(jax.grad(scalar, argnums=argnums))(*args),
        "vmap(grad)": lambda: jax.vmap(jax.grad(scalar, argnums=argnums), in_axes=in_axes)(*bargs),
        "eval_shape(vmap)": lambda: jax.eval_shape(jax.vmap(f, in_axes=in_axes), *[jax.ShapeDtypeStruct(a.shape, a.dtype) for a in bargs]),
        "jit-again": lambda: jax.jit(f)(*args),
    }
    if case.get("quick_subset"):
        trans = {k: v for k, v in trans.items() if k in case["quick_subset"]}
    if any(s == () for s in shapes):
        # Python scalars for the rank-0 arguments: the tracers are weakly typed float32[] -- same shape and dtype as jnp.zeros(())
        pyargs = [0.5 if (a.shape == () and i < nfloat) else a for i, a in enumerate(args)]
        trans["jit-pyscalar"] = lambda: jax.jit(f)(*pyargs)
        trans["grad-pyscalar"] = lambda: jax.grad(scalar, argnums=argnums)(*pyargs)
        trans["eval_shape-pyscalar"] = lambda: jax.eval_shape(f, *pyargs)
    leakcheck = bool(case.get("leakcheck"))
    for name, thunk in trans.items():
        counter.clear()
        if leakcheck:
            # JAX's tracer-leak checker on: nothing may keep a tracer alive after the transformation has returned
            def thunk(thunk=thunk):
                with jax.checking_leaks():
                    return thunk()
        got = outcome(thunk)
        if any(b in got for b in BAD):
            raise Violation("forced-concrete", case, f"{name}: {got}; {desc} in_axes={in_axes}")
        if got != eager:
            raise Violation("traced-vs-eager", case, f"{name}: {got}, eager: {eager}; {desc} in_axes={in_axes} in_axes2={in_axes2}")
        # one trace per transformation; JAX's tracing cache may serve jit-again / eval_shape from the earlier jit trace
        if got == "ok" and not is_dc and not (len(counter) == 1 or (len(counter) == 0 and (name in ("jit-again", "eval_shape", "jit") or name.endswith("-pyscalar")))):
            raise Violation("body-count", case, f"{name}: body traced {len(counter)} times; {desc}")
    names = {}
    for p in case["params"]:
        for m in gc.meanings_of(p):
            if m[0] in ("named", "namedvar"):
                names.setdefault(m[1], set()).add(p["name"])
    shared = any(len(v) >= 2 for v in names.values())
    ctx.extra["transformed_calls"] = ctx.extra.get("transformed_calls", 0) + len(trans)
    ctx.note([[(gc.spec_of(p), p["shape"]) for p in case["params"]], case["ret"] and (gc.spec_of(case["ret"]), case["ret"]["shape"]), in_axes, in_axes2, ck],
             (len(case["params"]) >= 2 and shared) or not ref,
             classes=([f"category-{case.get('cat')}"] if case.get("cat_params") else []) + (["python-scalar-arguments"] if any(s == () for s in shapes) else []) + (["dataclass-handed-to-the-transformations"] if is_dc else []) + (["jax-checking_leaks-on"] if leakcheck else []) + (["unrelated-int-scalar-argument"] if case.get("int_scalar") else []) + (["int-scalar-argument-named-like-an-axis"] if case.get("int_scalar") and case.get("int_name") else []) + ([f"array-type-typevar-{case['typevar']}"] if case.get("typevar") else []) + [f"verdict-{eager}", f"nparams-{len(case['params'])}", f"checker-{ck}"] + (["shared-name"] if shared else []) + (["some-in_axes-None"] if None in in_axes else []) + (["parameter-named-like-axis-in-expression"] if case.get("shadowing_names") else []),
             sample={"params": [(p["name"], gc.spec_of(p), p["shape"]) for p in case["params"]], "ret": case["ret"] and (gc.spec_of(case["ret"]), case["ret"]["shape"]),
                     "in_axes": in_axes, "verdict": eager})


@st.composite
def c17_case(draw):
    case = draw(gc.call_case(max_params=4))
    # keep arrays small: sizes <= 5 (7 -> 5)
    for e in case["params"] + ([case["ret"]] if case["ret"] else []):
        e["shape"] = [min(s, 5) if s != 7 else 5 for s in e["shape"]]
    n = len(case["params"])
    # trailing parameters may carry a numeric default
    nd = draw(st.sampled_from([0, 1, 2, 0]))
    for p in case["params"][max(0, n - nd):]:
        p["default"] = True
    # parameters may be called like axes that symbolic expressions mention ('n+1' with a parameter n): axis names and argument
    # names live in different namespaces, an expression is evaluated over the axis sizes only
    entries = case["params"] + ([case["ret"]] if case["ret"] else [])
    toks_all = [gc.tok_from_json(j) for e in entries for j in e["tokens"]]
    sym_names = sorted({nm for t in toks_all if t.base_kind == "sym" for nm in dl.expr_names(t.base) if nm.isascii()})
    if draw(st.integers(0, 5 if not sym_names else 1)) == 0 and not any(t.base_kind == "sym" and dl.expr_holes(t.base) for t in toks_all):
        pool = sym_names + [nm for nm in ["n", "a", "b", "c"] if nm not in sym_names]
        if draw(st.integers(0, 2)) == 0:
            pool = ["self"] + pool  # a (PyTree-of-arrays) object named self: nothing may ask for its truth value or compare it
        order = draw(st.permutations(range(n)))
        for idx, nm in zip(order, pool):
            case["params"][idx]["name"] = nm
        case["shadowing_names"] = bool(sym_names)
    # the return annotation may use an f-string axis over an *array* argument's shape ({x.shape[0]}): legitimate under
    # tracing too, a tracer has a static shape
    if case["ret"] is not None and case["params"][0]["shape"] and draw(st.integers(0, 2)) == 0:
        case["ret"]["tokens"].insert(0, gc.tok_json(dl.Token("", "sym", ("holeidx", case["params"][0]["name"], "shape", 0))))
        right = case["params"][0]["shape"][0]
        case["ret"]["shape"].insert(0, right if draw(st.integers(0, 3)) else right + 1)
    axes = []
    for p in case["params"]:
        r = len(p["shape"])
        axes.append(draw(st.sampled_from([0, None, r, 0] + list(range(r + 1)))))
    if all(a is None for a in axes):
        axes[0] = 0
    case["in_axes"] = axes
    axes2 = []
    for p, a in zip(case["params"], axes):
        r = len(p["shape"]) + (0 if a is None else 1)
        axes2.append(draw(st.sampled_from([0, None] + list(range(r + 1)))))
    if all(a is None for a in axes2):
        axes2[0] = 0
    case["in_axes2"] = axes2
    case["batch"] = draw(st.sampled_from([2, 3, 1]))
    case["checker"] = draw(st.sampled_from(["typeguard", "beartype"]))
    # some parameters are annotated with another dtype category than Float (all arrays are float32)
    case["int_scalar"] = draw(st.sampled_from([True, False, False]))
    axis_names = sorted({m[1] for e in entries for m in gc.meanings_of(e) if m[0] == "named" and isinstance(m[1], str)})
    import keyword

    axis_names = [a for a in axis_names if a.isascii() and a.isidentifier() and not keyword.iskeyword(a) and a not in {p["name"] for p in case["params"]}]
    case["int_name"] = draw(st.sampled_from(axis_names)) if axis_names and draw(st.integers(0, 1)) == 0 else None
    case["typevar"] = draw(st.sampled_from([None, "bound", None, "constrained", None]))
    case["leakcheck"] = draw(st.sampled_from([False, True, False]))
    case["dataclass"] = draw(st.integers(0, 4)) == 0 and not any(dl.expr_holes(t.base) for t in toks_all if t.base_kind == "sym")
    case["cat"] = draw(st.sampled_from(["Float16", "Float32", "Inexact", "Float64", "Shaped", "Int", "Num", "BFloat16"]))
    case["cat_params"] = sorted(i for i in range(n) if draw(st.integers(0, 3)) == 0) if draw(st.integers(0, 1)) == 0 else []
    return case


def run(ctx):
    quick = ctx.tier == "quick"

    @given(c17_case(), st.integers(0, 3))
    def cases(case, k):
        if quick:
            # quick tier: the four basic transformations always, the compositions for a rotating half
            comp = [["jit(vmap)", "vmap(grad)", "jit-again"], ["vmap(vmap)", "jit(grad)"], ["eval_shape(vmap)", "value_and_grad"], ["jit(vmap)", "vmap(vmap)"]][k]
            case["quick_subset"] = ["jit", "vmap", "eval_shape", "grad"] + comp
        check_case(ctx, case)

    ctx.hyp(cases, max_examples=ctx.n(160, 900))


def replay(case, clause, ctx):
    try:
        check_case(ctx, case)
    except Violation as v:
        return str(v)
    return None
