"""C10 -- the import hook only adds decorators: everything else in the module is untouched.

Translation validation of jaxtyping._import_hook.JaxtypingTransformer and of the loader's
source_to_code pipeline, program by program:
  * AST: parse twice, transform one copy (+ fix_missing_locations), then remove *exactly* one 'import
    jaxtyping' at the index of the first statement that is neither a __future__ import nor a constant
    expression (none if there is no such statement), the LAST decorator of every FunctionDef and the
    FIRST decorator of every ClassDef -- each must equal the checker's decorator expression (the location of the added nodes is
    judged through its observable effect, the code objects' line numbers, below) -- and require the remainder to equal the original under
    ast.dump(include_attributes=True) (every node, line and column).
  * pipeline: _JaxtypingLoader.source_to_code must compile, and its code objects (recursively) must have
    the same (name, first line, flags) as those of the plainly compiled module (future flags, line
    numbers); docstring equal.
  * behaviour (generated modules): module loaded through the loader with typechecker=None vs plainly:
    same __doc__, same results of its functions, same traceback line numbers.
Programs: a corpus (standard library + site-packages files that compile unmodified) and Hypothesis-
generated modules (prologues of docstring / string statements / __future__ imports, decorator stacks,
defs and classes nested in each other and in if/try/with/for/while/match, async defs, lambdas, one-line
bodies, tabs, non-ASCII)."""
from __future__ import annotations

import ast
import hashlib
import os
import sys
import sysconfig
import traceback
import types

from hypothesis import given, strategies as st

from jaxtyping._import_hook import JaxtypingTransformer, Typechecker, _JaxtypingLoader
from vf.core import Violation

ID = "C10"
LEVEL = "translation_validation"
SHARDS = {"quick": 4, "thorough": 16}
RULE = (
    "programs = corpus files (.py under the stdlib and /venv site-packages that compile unmodified; quick: a seed-dependent sample of "
    "~1200, thorough: all) + Hypothesis-generated modules. Every program is validated by stripping exactly the three documented kinds "
    "of additions and comparing ASTs with attributes, by comparing the code objects of the loader pipeline with a plain compile, and "
    "(generated modules) by executing both. Non-trivial = program with >=1 def/class AND (existing decorators, or nesting depth >=2, or a "
    "__future__/docstring prologue); disagreements_checked counts the stripped additions that were verified individually."
)
ASSUMPTIONS = [
    "corpus restricted to files that parse and compile unmodified under Python 3.12 (8 deliberately broken stdlib test files are filtered out by that rule)",
    "the IPython magic installs the same JaxtypingTransformer class; it is exercised through the transformer directly",
]

TC_STRINGS = ["typeguard.typechecked", None, "beartype.beartype"]
FUTURE_MASK = 0
for _n in ("CO_FUTURE_DIVISION", "CO_FUTURE_ABSOLUTE_IMPORT", "CO_FUTURE_WITH_STATEMENT", "CO_FUTURE_PRINT_FUNCTION", "CO_FUTURE_UNICODE_LITERALS",
           "CO_FUTURE_BARRY_AS_BDFL", "CO_FUTURE_GENERATOR_STOP", "CO_FUTURE_ANNOTATIONS"):
    import __future__ as _f

    FUTURE_MASK |= getattr(_f, _n, 0)


def is_prologue(stmt):
    return (isinstance(stmt, ast.ImportFrom) and stmt.module == "__future__") or (isinstance(stmt, ast.Expr) and isinstance(stmt.value, ast.Constant))


LOC = ("lineno", "col_offset", "end_lineno", "end_col_offset")


def code_objects(code, out=None):
    out = out if out is not None else []
    out.append((code.co_name, code.co_firstlineno, code.co_flags))
    for c in code.co_consts:
        if isinstance(c, types.CodeType):
            code_objects(c, out)
    return out


def validate(source: str, filename: str, tc_string, info):
    """Raises Violation; returns (n_defs, n_additions_checked, features)."""
    case = {"file": filename} if info.get("corpus") else {"source": source}
    case["typechecker"] = tc_string
    try:
        tree0 = ast.parse(source, filename)
    except (SyntaxError, ValueError, RecursionError):
        return None
    try:
        code0 = compile(source, filename, "exec", dont_inherit=True)
    except (SyntaxError, ValueError, RecursionError):
        return None  # not a syntactically valid module for this interpreter (corpus rule)
    tc = Typechecker(tc_string)
    expected_deco = ast.dump(tc.get_ast())
    tree1 = ast.parse(source, filename)
    try:
        out = JaxtypingTransformer(typechecker=tc).visit(tree1)
        ast.fix_missing_locations(out)
    except RecursionError:
        return None
    except BaseException as e:  # noqa: BLE001
        raise Violation("transformer-raised", case, f"JaxtypingTransformer raised {type(e).__name__}: {e}")
    if out is not tree1 and not isinstance(out, ast.Module):
        raise Violation("transformer-result", case, f"transformer returned {type(out).__name__}")
    # the transformed tree must compile as it is
    try:
        compile(out, filename, "exec", dont_inherit=True)
    except BaseException as e:  # noqa: BLE001
        raise Violation("does-not-compile", case, f"transformed tree does not compile: {type(e).__name__}: {e}")
    # the IPython magic keeps ONE transformer instance and applies it to every cell: a reused instance must transform
    # exactly like a fresh one
    key = repr(tc_string)
    if key not in _SHARED:
        _SHARED[key] = JaxtypingTransformer(typechecker=Typechecker(tc_string))
    tree2 = ast.parse(source, filename)
    out2 = _SHARED[key].visit(tree2)
    ast.fix_missing_locations(out2)
    if ast.dump(out2, include_attributes=True) != ast.dump(out, include_attributes=True):
        raise Violation("reused-transformer", case, "a transformer instance that has already transformed other modules (as the IPython magic reuses it) "
                                                    "produces a different tree than a fresh instance: " + first_difference(out, out2))
    checked = 0
    # ---- 1. the import
    body0 = tree0.body
    k = next((i for i, s in enumerate(body0) if not is_prologue(s)), None)
    if k is None:
        if len(out.body) != len(body0):
            raise Violation("import-added", case, "module consists of docstring/__future__ statements only, yet a statement was added")
    else:
        if len(out.body) != len(body0) + 1:
            raise Violation("import-count", case, f"expected exactly one added statement, module body grew from {len(body0)} to {len(out.body)}")
        imp = out.body[k]
        if not (isinstance(imp, ast.Import) and len(imp.names) == 1 and imp.names[0].name == "jaxtyping" and imp.names[0].asname is None):
            where = next((i for i, s in enumerate(out.body) if isinstance(s, ast.Import) and s.names[0].name == "jaxtyping" and i >= 0), None)
            raise Violation("import-position", case, f"statement #{k} (first after docstring/__future__ prologue) is {ast.dump(imp)[:80]}, the added import is at #{where}")
        del out.body[k]
        checked += 1
    # ---- 2. decorators
    ndefs = 0
    for node in ast.walk(out):
        if isinstance(node, (ast.FunctionDef, ast.ClassDef)):
            ndefs += 1
            idx = -1 if isinstance(node, ast.FunctionDef) else 0
            kind = "def" if idx == -1 else "class"
            if not node.decorator_list:
                raise Violation("decorator-missing", case, f"{kind} {node.name} (line {node.lineno}) got no decorator")
            d = node.decorator_list[idx]
            if ast.dump(d) != expected_deco:
                raise Violation("decorator-position", case,
                                f"{kind} {node.name} (line {node.lineno}): the {'innermost' if idx == -1 else 'outermost'} decorator is {ast.unparse(d)[:80]}, not the jaxtyped decorator")
            del node.decorator_list[idx]
            checked += 1
    # ---- 3. everything else untouched
    d0 = ast.dump(tree0, include_attributes=True)
    d1 = ast.dump(out, include_attributes=True)
    if d0 != d1:
        i = next((i for i, (a, b) in enumerate(zip(d0, d1)) if a != b), min(len(d0), len(d1)))
        raise Violation("ast-differs", case, f"after removing the three kinds of additions the tree differs from the original near: ...{d0[max(0, i - 80):i + 80]!r} vs ...{d1[max(0, i - 80):i + 80]!r}")
    # ---- 4. the loader pipeline
    try:
        loader = _JaxtypingLoader("vf_c10_mod", filename, typechecker=tc)
        code1 = loader.source_to_code(source.encode("utf-8") if info.get("encode", True) else info["bytes"], filename)
    except BaseException as e:  # noqa: BLE001
        raise Violation("loader-compile", case, f"_JaxtypingLoader.source_to_code raised {type(e).__name__}: {e}")
    co0, co1 = code_objects(code0), code_objects(code1)
    if len(co0) != len(co1):
        raise Violation("code-objects", case, f"{len(co1)} code objects from the hooked pipeline vs {len(co0)} from a plain compile")
    for a, b in zip(co0, co1):
        # a class body's co_firstlineno is the line of its first decorator; the added (outermost) class decorator
        # sits on the 'class' line by design, so only function code objects are compared on their first line
        # (PEP 695 '<generic parameters of C>' scopes of a decorated class start on its first decorator line too)
        is_function = bool(a[2] & 0x1) and not a[0].startswith("<generic parameters of")
        if a[0] != b[0] or (is_function and a[1] != b[1]):
            raise Violation("line-numbers", case, f"code object {a[0]!r} starts at line {a[1]} in the plain module but {b[0]!r} at line {b[1]} in the hooked one")
        if (a[2] & FUTURE_MASK) != (b[2] & FUTURE_MASK):
            raise Violation("future-flags", case, f"code object {a[0]!r}: __future__ flags {a[2] & FUTURE_MASK:#x} (plain) vs {b[2] & FUTURE_MASK:#x} (hooked)")
    if ast.get_docstring(tree0, clean=False) != (code1.co_consts[0] if ast.get_docstring(tree0, clean=False) is not None and code1.co_consts and isinstance(code1.co_consts[0], str) else ast.get_docstring(tree0, clean=False)):
        raise Violation("docstring", case, "module docstring differs")
    feats = {
        "decorated": any(isinstance(n, (ast.FunctionDef, ast.ClassDef, ast.AsyncFunctionDef)) and n.decorator_list for n in ast.walk(tree0)),
        "prologue": bool(body0) and is_prologue(body0[0]),
        "future": any(isinstance(s, ast.ImportFrom) and s.module == "__future__" for s in body0),
        "async": any(isinstance(n, ast.AsyncFunctionDef) for n in ast.walk(tree0)),
        "nested": nesting_depth(tree0) >= 2,
    }
    return ndefs, checked, feats


_SHARED = {}


def first_difference(a, b):
    da, db = ast.dump(a, include_attributes=True), ast.dump(b, include_attributes=True)
    i = next((i for i, (x, y) in enumerate(zip(da, db)) if x != y), min(len(da), len(db)))
    return f"...{da[max(0, i - 60):i + 60]!r} vs ...{db[max(0, i - 60):i + 60]!r}"


def nesting_depth(node, d=0):
    best = d
    for c in ast.iter_child_nodes(node):
        nd = d + 1 if isinstance(c, (ast.FunctionDef, ast.ClassDef, ast.AsyncFunctionDef)) else d
        best = max(best, nesting_depth(c, nd))
    return best


# ------------------------------------------------------------------------------------------------ corpus
def corpus_files():
    roots = [sysconfig.get_paths()["stdlib"], os.path.join(sys.prefix, "lib", f"python{sys.version_info.major}.{sys.version_info.minor}", "site-packages")]
    out = []
    for r in roots:
        for dp, dn, fn in os.walk(r):
            dn[:] = [d for d in dn if d not in ("__pycache__",)]
            if r == roots[0] and "site-packages" in dp:
                continue
            for f in fn:
                if f.endswith(".py"):
                    out.append(os.path.join(dp, f))
    out.sort()
    return out


def run_corpus(ctx):
    files = corpus_files()
    ctx.extra["corpus_files_total"] = len(files) if ctx.shard == 0 else 0
    sample_mod = 1 if ctx.tier == "thorough" else max(1, len(files) // ctx.n(1200, 10 ** 9))
    n = 0
    for i, path in enumerate(files):
        hsh = int(hashlib.sha1(f"{ctx.seed}:{path}".encode()).hexdigest()[:8], 16)
        if hsh % sample_mod != 0 or (hsh // sample_mod) % ctx.nshards != ctx.shard:
            continue
        try:
            with open(path, "rb") as f:
                data = f.read()
            if len(data) > 400_000:
                continue
            from importlib.util import decode_source

            source = decode_source(data)
        except (SyntaxError, UnicodeDecodeError, ValueError, OSError):
            continue
        tcs = TC_STRINGS[hsh % 3]
        try:
            res = validate(source, path, tcs, {"corpus": True, "encode": False, "bytes": data})
        except Violation as v:
            ctx.record(v)
            return
        if res is None:
            ctx.classes["corpus-skipped-does-not-compile"] += 1
            continue
        n += 1
        ndefs, checked, feats = res
        ctx.extra["programs"] = ctx.extra.get("programs", 0) + 1
        ctx.extra["disagreements_checked"] = ctx.extra.get("disagreements_checked", 0) + checked
        ctx.note(path, ndefs >= 1 and (feats["decorated"] or feats["nested"] or feats["prologue"]),
                 classes=["corpus"] + [f"feat-{k}" for k, v in feats.items() if v],
                 sample={"file": path, "defs_and_classes": ndefs, "additions_verified": checked})


# ------------------------------------------------------------------------------------------------ generated modules
IND = ["    ", "\t", "  "]


@st.composite
def gen_block(draw, depth, ind, state):
    """A list of source lines (already indented by the caller) forming 1..3 statements."""
    n = draw(st.integers(1, 3))
    lines = []
    for _ in range(n):
        kinds = ["assign", "def", "def", "class", "expr"]
        if depth < 3:
            kinds += ["if", "try", "with", "for", "while", "match", "adef", "def", "class"]
        k = draw(st.sampled_from(kinds))
        state["n"] += 1
        i = state["n"]
        if k == "assign":
            lines.append(draw(st.sampled_from([f"v{i} = {i}", f"v{i} = lambda q: q + {i}", f"é{i} = 'ünï'", f"v{i}: int = {i}", f"v{i} = [x for x in range(3)]"])))
        elif k == "expr":
            lines.append(draw(st.sampled_from(["pass", f"'string statement {i}'", f"{i}", "..."])))
        elif k in ("def", "adef"):
            # (since PEP 614 a decorator is any expression: a subscript, a call of a call, a conditional, a lambda)
            decos = draw(st.lists(st.sampled_from(["@deco", "@deco_factory(1)", "@m.deco", "@deco_factory(\n    2)", "@deco_map[\"k\"]", "@deco_factory2(1)(2)",
                                                   "@(deco if True else m.deco)", "@(lambda f: f)"]), max_size=3))
            for dline in decos:
                lines.extend(dline.split("\n"))
            head = f"{'async ' if k == 'adef' else ''}def f{i}({draw(st.sampled_from(['', 'x=1', 'x: int = 1, *a, **k', 'x, /, y=2, *, z=3']))}){draw(st.sampled_from(['', ' -> int']))}:"
            if draw(st.integers(0, 4)) == 0:
                lines.append(head + f" return {i}")
            else:
                lines.append(head)
                body = [f'"""doc {i}"""'] if draw(st.booleans()) else []
                if depth < 3 and draw(st.integers(0, 2)) == 0:
                    body += draw(gen_block(depth + 1, ind, state))
                # (the last line of a definition may end to the LEFT of its `def` keyword: a dedented closing bracket, a string closed at the margin)
                body.append(draw(st.sampled_from([f"return {i}", f"return {i}", f"return {i}", f"return ({i}\n)", f"return {i} if \"\"\"x\n\"\"\" else 0"])))
                lines.extend(ind + b for b in body)
            state["funcs"].append((f"f{i}", k, depth))
        elif k == "class":
            decos = draw(st.lists(st.sampled_from(["@deco", "@deco_factory(1)"]), max_size=2))
            lines.extend(decos)
            head = f"class C{i}{draw(st.sampled_from(['', '(object)', '(Base, metaclass=type)']))}:"
            if draw(st.integers(0, 4)) == 0:
                lines.append(head + " pass")
            else:
                lines.append(head)
                body = [f'"""class doc {i}"""'] if draw(st.booleans()) else []
                if depth < 3:
                    body += draw(gen_block(depth + 1, ind, state))
                else:
                    body.append(f"attr = {i}")
                if draw(st.integers(0, 3)) == 0:
                    body.append(f"last = [{i},\n]")
                lines.extend(ind + b for b in body)
        else:
            inner = draw(gen_block(depth + 1, ind, state))
            if k == "if":
                lines.append("if True:")
                lines.extend(ind + b for b in inner)
                if draw(st.booleans()):
                    lines.append("else:")
                    lines.extend(ind + b for b in draw(gen_block(depth + 1, ind, state)))
            elif k == "try":
                lines.append("try:")
                lines.extend(ind + b for b in inner)
                lines.append("except Exception:")
                lines.append(ind + "pass")
                if draw(st.booleans()):
                    lines.append("finally:")
                    lines.extend(ind + b for b in draw(gen_block(depth + 1, ind, state)))
            elif k == "with":
                lines.append("with cm() as w:")
                lines.extend(ind + b for b in inner)
            elif k == "for":
                lines.append("for it in range(1):")
                lines.extend(ind + b for b in inner)
            elif k == "while":
                lines.append("while once():")
                lines.extend(ind + b for b in inner)
            else:
                lines.append("match 1:")
                lines.append(ind + "case 1:")
                lines.extend(ind + ind + b for b in inner)
    return lines


PRELUDE = [
    "import contextlib", "import types as _types", "deco = lambda f: f", "deco_factory = lambda n: (lambda f: f)", "deco_map = {'k': deco}", "deco_factory2 = lambda n: (lambda k: (lambda f: f))", "m = _types.SimpleNamespace(deco=deco)",
    "cm = contextlib.nullcontext", "Base = object", "_once = [True]", "def once():", "    return _once.pop() if _once else False",
]


@st.composite
def gen_module(draw):
    ind = draw(st.sampled_from(IND))
    pro = []
    shape = draw(st.sampled_from(["none", "doc", "doc+future", "future", "future2", "doc+str", "doc+future2", "only-doc", "empty", "only-future", "doc+future+str"]))
    futs = draw(st.permutations(["annotations", "division", "generator_stop", "print_function"]))
    if shape.startswith("doc") or shape == "only-doc":
        pro.append(draw(st.sampled_from(['"""Module docstring."""', "'single'", '"""multi\nline\n  docstring"""', 'r"""raw \\d"""', "'dœc'"])))
    if "future2" in shape:
        pro.append(f"from __future__ import {futs[0]}")
        pro.append(f"from __future__ import {futs[1]}, {futs[2]}")
    elif "future" in shape:
        pro.append(f"from __future__ import {futs[0]}" + (f", {futs[1]}" if draw(st.booleans()) else ""))
    if shape.endswith("str"):
        pro.append("'a second string statement'")
        if draw(st.booleans()):
            pro.append("42")
    if shape in ("only-doc", "empty", "only-future"):
        return "\n".join(pro) + ("\n" if pro and draw(st.booleans()) else ""), {"funcs": [], "shape": shape}
    state = {"n": 0, "funcs": []}
    body = draw(gen_block(0, ind, state))
    # the module may import jaxtyping itself -- before its defs, between them and the tail (a late import to dodge a cycle), aliased
    own = draw(st.sampled_from([None, None, "late", "early", "late-alias", "early-from", None]))
    own_early = {"early": ["import jaxtyping"], "early-from": ["from jaxtyping import Float"]}.get(own, [])
    own_late = {"late": ["import jaxtyping"], "late-alias": ["import jaxtyping as jt"]}.get(own, [])
    lines = pro + ([""] if draw(st.booleans()) else []) + own_early + PRELUDE + body + own_late
    state["own_import"] = own
    tail = ["", "def boom():", f"{ind}def inner():", f"{ind}{ind}raise RuntimeError('boom')", f"{ind}return inner()"]
    src = "\n".join(lines + tail) + draw(st.sampled_from(["\n", "", "\n\n"]))
    state["shape"] = shape
    return src, state


def exec_module(code):
    mod = types.ModuleType("vf_c10_exec")
    mod.__file__ = "<vf-c10>"
    exec(code, mod.__dict__)
    return mod


def encode_source(source, encoding):
    """-> (source text incl. a PEP 263 cookie / probe constant, the bytes of the file)"""
    if not encoding:
        return source, source.encode("utf-8")
    # a string constant whose bytes in the declared encoding are ALSO valid UTF-8 (C3 A9 ...): decoding must follow the declaration
    probe = "\nENC_PROBE = 'Ã©Ã\xa0'\n" if encoding in ("latin-1", "iso-8859-15") else "\nENC_PROBE = 'Ã©'\n"
    if encoding == "utf-8-sig":
        text = source + probe
        return text, text.encode("utf-8-sig")
    text = f"# -*- coding: {encoding} -*-\n" + source + probe
    try:
        return text, text.encode(encoding)
    except UnicodeEncodeError:
        # the generated module uses characters the encoding lacks: keep it a UTF-8 file, with an explicit utf-8 declaration
        text = "# -*- coding: utf-8 -*-\n" + source + probe
        return text, text.encode("utf-8")


def behaviour(ctx, source, state, data=None):
    case = {"source": source, "typechecker": None, "encoding": state.get("encoding")}
    data = source.encode("utf-8") if data is None else data
    plain = exec_module(compile(data, "<vf-c10>", "exec", dont_inherit=True))
    loader = _JaxtypingLoader("vf_c10_mod", "<vf-c10>", typechecker=Typechecker(None))
    hooked = exec_module(loader.source_to_code(data, "<vf-c10>"))
    if plain.__doc__ != hooked.__doc__:
        raise Violation("behaviour-doc", case, f"__doc__ {plain.__doc__!r} vs {hooked.__doc__!r}")
    for name in sorted(set(vars(plain)) | set(vars(hooked))):
        if name.startswith("__") or name in ("jaxtyping",):
            continue
        a, b = getattr(plain, name, "<missing>"), getattr(hooked, name, "<missing>")
        if type(a) is not type(b) and not (callable(a) and callable(b)):
            raise Violation("behaviour-names", case, f"module attribute {name}: {a!r} vs {b!r}")
        if isinstance(a, (int, str, list)) and a != b:
            raise Violation("behaviour-values", case, f"module attribute {name}: {a!r} vs {b!r}")
        if isinstance(a, types.FunctionType) and name.startswith("f") and name[1:].isdigit():
            import inspect

            try:
                ra = a() if not inspect.iscoroutinefunction(a) else "coro"
                rb = b() if not inspect.iscoroutinefunction(a) else "coro"
            except TypeError:
                continue
            if ra != rb:
                raise Violation("behaviour-results", case, f"{name}() = {ra!r} plain vs {rb!r} hooked")
            if a.__doc__ != b.__doc__ or a.__name__ != b.__name__:
                raise Violation("behaviour-meta", case, f"{name}: doc/name differ")
    lines = []
    for mod in (plain, hooked):
        try:
            mod.boom()
        except RuntimeError as e:
            lines.append([fr.lineno for fr in traceback.extract_tb(e.__traceback__) if fr.filename == "<vf-c10>"])
    if lines[0] != lines[1]:
        raise Violation("behaviour-traceback", case, f"traceback line numbers {lines[0]} (plain) vs {lines[1]} (hooked)")


def run(ctx):
    run_corpus(ctx)

    @given(gen_module(), st.sampled_from(TC_STRINGS), st.sampled_from([None, "latin-1", None, "cp1252", None, "utf-8-sig", None, "iso-8859-15"]))
    def generated(ms, tcs, encoding):
        source, state = ms
        source, data = encode_source(source, encoding)
        state = dict(state, encoding=encoding)
        res = validate(source, "<vf-c10>", tcs, {"encode": False, "bytes": data} if encoding else {})
        if res is None:
            raise AssertionError(f"harness generated a module that does not compile:\n{source}")
        ndefs, checked, feats = res
        if state.get("shape") not in ("only-doc", "empty", "only-future"):
            behaviour(ctx, source, state, data)
        ctx.extra["programs"] = ctx.extra.get("programs", 0) + 1
        ctx.extra["disagreements_checked"] = ctx.extra.get("disagreements_checked", 0) + checked
        ctx.note(source, ndefs >= 1 and (feats["decorated"] or feats["nested"] or feats["prologue"]),
                 classes=["generated", f"prologue-{state.get('shape')}"] + ([f"own-jaxtyping-import-{state.get('own_import')}"] if state.get("own_import") else []) + ([f"encoding-{encoding}"] if encoding else []) + [f"feat-{k}" for k, v in feats.items() if v],
                 sample={"source": source, "additions_verified": checked})

    ctx.hyp(generated, max_examples=ctx.n(250, 2500))


def coverage_extra(cov):
    return {"explanation": "translation validation per program: AST with attributes modulo the three documented additions, code-object flags/lines, execution of generated modules"}


def replay(case, clause, ctx):
    try:
        if "file" in case:
            from importlib.util import decode_source

            data = open(case["file"], "rb").read()
            validate(decode_source(data), case["file"], case.get("typechecker"), {"corpus": True, "encode": False, "bytes": data})
        else:
            enc = case.get("encoding")
            data = None
            if enc:
                try:
                    data = case["source"].encode(enc)
                except UnicodeEncodeError:
                    data = case["source"].encode("utf-8")
            validate(case["source"], "<vf-c10>", case.get("typechecker"), {"encode": False, "bytes": data} if enc else {})
            behaviour(ctx, case["source"], {"encoding": enc}, data)
    except Violation as v:
        return str(v)
    return None
