"""C05 -- bindings live exactly as long as one jaxtyped call or context block.

A tiny program language is interpreted by the harness (DESIGN §5 C05): nested decorated calls (new
style with typeguard/beartype, old style, typechecker=None, methods, dataclass __init__ with
__post_init__, context blocks), manual isinstance checks and {arg}-symbolic checks between them, exits
by return / Exception / BaseException / ill-typed parameters / ill-typed return value, and creation
of generators / coroutines by decorated functions that are driven later.
Oracle: a model stack of contexts; at every program point the parsed print_bindings() equals the model's
top context (before and after every call, also after an exception was caught in the caller); at top
level nothing is printed and checks are stateless; {k} holes see the callee's arguments in the callee
and the caller's in the caller."""
from __future__ import annotations

import asyncio
import dataclasses
import warnings

import numpy as np
from hypothesis import given, strategies as st

from jaxtyping import PyTree, Shaped, TypeCheckError, jaxtyped
from vf import obs
from vf.core import Violation
from vf.gen import calls as gc

ID = "C05"
LEVEL = "exploration"
SHARDS = {"quick": 4, "thorough": 16}
RULE = (
    "Hypothesis draws programs (depth<=5, <=30 nodes) over ops: check(name,size), failing check after a tentative binding, hole-check({k}), call(kind in new-typeguard/"
    "new-beartype/old-typeguard/none/method/dataclass/context/one shared re-entered context object; exit in return/Exception/KeyboardInterrupt/custom BaseException/"
    "CancelledError/GeneratorExit/ill-typed parameter/ill-typed return) with a nested body, make-generator / make-coroutine "
    "(driven after the creating call returned; a third of the generators are advanced one step right away, inside the creating frame's caller). After every node the bindings transcript is compared with a model stack. "
    "Non-trivial = program with nesting depth>=2 containing an exceptional exit of a nested call, a generator/coroutine that outlives its creating call, "
    "or a return annotation over a name that only the body bound (the narrower class 'a frame checks, after an exceptional exit below it, a name the callee had "
    "bound to another size' is counted separately as conflict-after-exceptional-exit); distinct by program text."
)
ASSUMPTIONS = [
    "no_type_check functions are excluded (C19 makes them plain code)",
    "bindings are observed through print_bindings(); the harness resets jaxtyping's private stack between cases for hygiene only",
]


class Boom(BaseException):
    pass


class _Suspend:
    def __await__(self):
        yield None


@dataclasses.dataclass(frozen=True)
class FrozenError(Exception):
    """an exception class whose instances reject attribute assignment (add_note, __notes__, ... raise FrozenInstanceError)"""

    code: str = "frozen"


EXCS = {
    "FrozenError": FrozenError,
    "ValueError": ValueError,
    "KeyboardInterrupt": KeyboardInterrupt,
    "Boom": Boom,
    "CancelledError": asyncio.CancelledError,
    "GeneratorExit": GeneratorExit,
    "RuntimeError": RuntimeError,
}
P = Shaped[np.ndarray, "p"]
# return annotations over names that only the BODY binds (by a manual isinstance check): body and return check share one context
RET_AXIS = Shaped[np.ndarray, "p vfret"]
RET_STRUCT = PyTree[int, "VfS"]
KINDS = ["new-typeguard", "new-beartype", "old-typeguard", "none", "method", "dataclass", "context", "new-typeguard", "old-beartype", "context-shared", "context-shared",
         "plain-typeguard", "plain-beartype", "bare-beartype", "bare-typeguard"]  # plain-*: new-style checker, but no jaxtyping annotation in the signature; bare-*: no annotation at all
EXITS = ["return", "return", "exc", "exc", "bad-param", "bad-return", "bad-arity"]


class Interp:
    def __init__(self, ctx, program):
        self.ctx = ctx
        self.program = program
        self.stack = []  # model: list of dict(bindings=..., k=...)
        self.shared_ctx = jaxtyped("context")
        self.pending = []  # generators / coroutines to drive at the end
        self.flags = set()
        self.nodes = 0

    def fail(self, clause, msg):
        raise Violation(clause, self.program, msg)

    # -- observation vs model ---------------------------------------------------------
    def assert_bindings(self, where):
        got = obs.bindings()[0]
        exp = dict(self.stack[-1]["b"]) if self.stack else {}
        if got != exp:
            self.fail("bindings", f"{where}: print_bindings shows {got}, model context (depth {len(self.stack)}) is {exp}")
        if not self.stack and obs.raw_bindings().strip() != "":
            self.fail("toplevel-prints", f"{where}: print_bindings at top level printed {obs.raw_bindings()!r}")

    # -- nodes ---------------------------------------------------------------------------
    def run(self, nodes):
        for n in nodes:
            self.nodes += 1
            op = n["op"]
            if op == "check":
                self.do_check(n)
            elif op == "failcheck":
                self.do_failcheck(n)
            elif op == "hole":
                self.do_hole(n)
            elif op == "call":
                self.do_call(n)
            elif op == "gen":
                self.do_gen(n)
            else:
                raise AssertionError(op)
            self.assert_bindings(f"after {op} node #{self.nodes}")

    def do_check(self, n, observed=None):
        got = observed if observed is not None else obs.verdict(np.zeros((n["size"],)), Shaped[np.ndarray, n["name"]])
        if self.stack:
            b = self.stack[-1]["b"]
            if n["name"] in b:
                exp = "True" if b[n["name"]] == n["size"] else "False"
                if self.stack[-1].get("after_exc"):
                    self.flags.add("conflict-after-exceptional-exit")
            else:
                exp = "True"
                b[n["name"]] = n["size"]
        else:
            exp = "True"
        if got != exp:
            self.fail("check-verdict", f"check {n['name']}={n['size']} at depth {len(self.stack)} gave {got}, model says {exp} (model context {self.stack[-1]['b'] if self.stack else 'none'})")

    def do_failcheck(self, n):
        """A check that can only fail, after having tentatively bound its first axis (if that was unbound or agrees): nothing may
        remain of it, in this frame or any other."""
        got = obs.verdict(np.zeros((n["size"], n["size"] + 1)), Shaped[np.ndarray, f"{n['name']} {n['name']}"])
        if got != "False":
            self.fail("check-verdict", f"failing check '{n['name']} {n['name']}' on ({n['size']}, {n['size'] + 1}) gave {got}")

    def do_hole(self, n):
        got = obs.verdict(np.zeros((n["size"],)), Shaped[np.ndarray, "{k}"])
        if self.stack and self.stack[-1]["k"] is not None:
            exp = "True" if self.stack[-1]["k"] == n["size"] else "False"
        else:
            exp = "AnnotationError"
        if got != exp:
            self.fail("hole-verdict", f"{{k}} check with size {n['size']} at depth {len(self.stack)} gave {got}, model says {exp} (k of this frame: {self.stack[-1]['k'] if self.stack else None})")

    def do_call(self, n):
        kind, exit_, psize, k = n["kind"], n["exit"], n["psize"], n["k"]
        has_checker = kind not in ("none", "context", "context-shared", "plain-typeguard", "plain-beartype", "bare-typeguard", "bare-beartype")
        if kind.startswith(("plain-", "bare-")) and exit_ == "bad-return":
            exit_ = "return"
        if not has_checker and exit_ in ("bad-param", "bad-return"):
            exit_ = "return"
        if exit_ == "bad-arity" and kind in ("context", "context-shared", "dataclass"):
            exit_ = "return"
        if kind == "dataclass" and exit_ == "bad-return":
            exit_ = "return"
        retbody = n.get("retbody") if (exit_ == "return" and (kind.startswith("new-") or kind == "method")) else None
        exc_obj = EXCS[n["exc"]]("from body") if exit_ == "exc" else None
        interp = self
        entered = []

        def body():
            # runs inside the callee's context
            entered.append(1)
            frame = {"b": {"p": psize} if has_checker else {}, "k": k if not kind.startswith("context") else None}
            interp.stack.append(frame)
            interp.assert_bindings(f"on entry of {kind} call")
            interp.run(n["body"])
            if exc_obj is not None:
                raise exc_obj
            if retbody is not None:
                # the last thing the body does: the first use of a name that the return annotation mentions
                ok = isinstance(np.zeros((5,)), Shaped[np.ndarray, "vfret"]) if retbody.startswith("axis") else isinstance((1, 2), RET_STRUCT)
                if not ok:
                    interp.fail("body-check", f"first use of a fresh name in the body of a {kind} call was rejected")

        arg = np.zeros((psize,)) if exit_ != "bad-param" else "not-an-array"
        retval = [None]
        depth_before = len(self.stack)
        before = obs.bindings()[0]
        try:
            if kind == "context":
                with jaxtyped("context"):
                    body()
            elif kind == "context-shared":
                # one context-manager object stored and re-entered (also while it is already active)
                with self.shared_ctx:
                    body()
            elif kind == "dataclass":
                tc = gc.checker("typeguard")

                @jaxtyped(typechecker=tc)
                @dataclasses.dataclass
                class D:
                    x: P
                    k: int

                    def __post_init__(self):
                        body()

                D(arg, k)
            else:
                def retvalue(x):
                    if retbody is not None:
                        good = retbody.endswith("good")
                        return np.zeros((psize, 5 if good else 6)) if retbody.startswith("axis") else ((7, 8) if good else (7, 8, 9))
                    return x if exit_ != "bad-return" else np.zeros((psize + 1, 2))

                RET = P if retbody is None else (RET_AXIS if retbody.startswith("axis") else RET_STRUCT)

                def raw(x, k):
                    body()
                    return retvalue(x)

                raw.__annotations__ = {"x": P, "k": int, "return": RET}

                if kind == "method":
                    class K:
                        def m(self, x, k):
                            body()
                            return retvalue(x)

                        m.__annotations__ = {"x": P, "k": int, "return": RET}
                        m = jaxtyped(typechecker=gc.checker("typeguard"))(m)

                    fn = K().m
                else:
                    with warnings.catch_warnings():
                        warnings.simplefilter("ignore")
                        if kind == "none":
                            def raw_none(x, k):
                                body()
                                return x

                            fn = jaxtyped(typechecker=None)(raw_none)
                        elif kind.startswith("plain-"):
                            # only ordinary annotations: the call still gets its own context (the body may bind names)
                            def raw_plain(x: object, k: int) -> object:
                                body()
                                return x

                            fn = jaxtyped(typechecker=gc.checker(kind[6:]))(raw_plain)
                            if exit_ == "bad-param":
                                arg, k = np.zeros((psize,)), "not-an-int"
                        elif kind.startswith("bare-"):
                            # a completely unannotated signature: nothing to check, but the call is a jaxtyped call all the same
                            def raw_bare(x, k):
                                body()
                                return x

                            fn = jaxtyped(typechecker=gc.checker(kind[5:]))(raw_bare)
                        elif kind.startswith("new-"):
                            fn = jaxtyped(typechecker=gc.checker(kind[4:]))(raw)
                        else:
                            fn = jaxtyped(gc.checker(kind[4:])(raw))
                if exit_ == "bad-arity":
                    # a call that does not even bind (too many arguments): TypeError, the body never starts, the caller's context stays
                    retval[0] = fn(arg, k, "extra-1", "extra-2", "extra-3")
                else:
                    retval[0] = fn(arg, k)
            outcome = "returned"
        except BaseException as e:  # noqa: BLE001
            outcome = e
        # the callee is done, however it ended: the model pops back to the caller's frame
        del self.stack[depth_before:]
        where = f"after {kind} call (exit={exit_}{'/' + n['exc'] if exit_ == 'exc' else ''}, psize={psize}) at depth {depth_before}"
        if isinstance(outcome, Violation):
            raise outcome
        if retbody is not None and retbody.endswith("bad"):
            if not isinstance(outcome, TypeCheckError):
                self.fail("call-outcome", f"{where}: the body bound {'axis vfret=5' if retbody.startswith('axis') else 'structure VfS=(*,*)'} by a manual check, the returned value "
                                          f"contradicts it under the return annotation, expected TypeCheckError, got {outcome if outcome == 'returned' else type(outcome).__name__}")
            if self.stack:
                self.stack[-1]["after_exc"] = True
            self.flags.add("return-annotation-over-body-bound-name")
        elif exit_ == "return":
            if outcome != "returned":
                self.fail("call-outcome", f"{where}: expected normal return, got {type(outcome).__name__}: {str(outcome)[:200]}")
        elif exit_ == "exc":
            if outcome is not exc_obj:
                self.fail("call-outcome", f"{where}: expected the body's {n['exc']} to propagate, got {outcome!r}")
            if self.stack:
                self.stack[-1]["after_exc"] = True
            self.flags.add("exceptional-exit" + ("-base" if not isinstance(exc_obj, Exception) else ""))
        elif exit_ == "bad-param":
            if not isinstance(outcome, Exception) or outcome == "returned":
                self.fail("call-outcome", f"{where}: ill-typed parameter accepted")
            if kind.startswith(("new-", "plain-")) or kind in ("method", "dataclass"):
                if not isinstance(outcome, TypeCheckError):
                    self.fail("call-outcome", f"{where}: expected TypeCheckError, got {type(outcome).__name__}")
            if entered:
                self.fail("call-outcome", f"{where}: body ran although the parameter is ill-typed")
            if self.stack:
                self.stack[-1]["after_exc"] = True
        elif exit_ == "bad-arity":
            if not isinstance(outcome, TypeError):
                self.fail("call-outcome", f"{where}: a call with three surplus arguments gave {outcome if outcome == 'returned' else type(outcome).__name__}, expected TypeError")
            if entered:
                self.fail("call-outcome", f"{where}: body ran although the call does not bind")
            if self.stack:
                self.stack[-1]["after_exc"] = True
            self.flags.add("non-binding-call")
        elif exit_ == "bad-return":
            if outcome == "returned":
                self.fail("call-outcome", f"{where}: ill-typed return value accepted")
            if self.stack:
                self.stack[-1]["after_exc"] = True
        after = obs.bindings()[0]
        if after != before:
            self.fail("caller-bindings-changed", f"{where}: caller's bindings were {before}, now {after}")

    def do_gen(self, n):
        kind = n["kind"]
        record = []

        if kind == "generator":
            @jaxtyped(typechecker=gc.checker(n["checker"]))
            def g(x: P, k: int):
                for c in n["body"]:
                    record.append(obs.verdict(np.zeros((c["size"],)), Shaped[np.ndarray, c["name"]]))
                    record.append(obs.bindings()[0])
                    yield c["size"]

            obj = g(np.zeros((n["psize"],)), n["k"])
            if n.get("advance"):
                # drive the first step right here: the generator body is ordinary code running in the DRIVER's context (the
                # creating call has returned long ago), so its check binds/compares like a manual check at this point
                first = n["body"][0]
                got = next(obj)
                self.do_check({"name": first["name"], "size": first["size"]}, observed=record[0])
                if got != first["size"]:
                    self.fail("generator-values", f"generator yielded {got}")
                if record[1] != (dict(self.stack[-1]["b"]) if self.stack else {}):
                    self.fail("generator-context", f"generator advanced inside a frame: its body saw bindings {record[1]}, the driver's frame has {self.stack[-1]['b'] if self.stack else {}}")
                del record[:2]
                n = dict(n, body=n["body"][1:], advanced=True)
        else:
            async def co(x, k):
                for c in n["body"]:
                    record.append(obs.verdict(np.zeros((c["size"],)), Shaped[np.ndarray, c["name"]]))
                    record.append(obs.bindings()[0])
                    if n.get("suspend"):
                        await _Suspend()  # really suspends: control returns to whoever drives the coroutine
                return 7

            # with or without a return annotation (a plain one: the coroutine object itself is never checked against it)
            co.__annotations__ = dict({"x": P, "k": int}, **({"return": int} if n.get("ret_ann") else {}))
            co = jaxtyped(typechecker=gc.checker(n["checker"]))(co)

            obj = co(np.zeros((n["psize"],)), n["k"])
        self.pending.append((kind, obj, record, n))

    def drive_pending(self):
        """At top level, after the whole program: generators/coroutines run outside every context."""
        for kind, obj, record, n in self.pending:
            if kind == "generator":
                out = list(obj)
                if out != [c["size"] for c in n["body"]]:
                    self.fail("generator-values", f"generator yielded {out}")
            else:
                try:
                    for _ in range(len(n["body"]) + 1):
                        obj.send(None)
                        # suspended: the driver is at top level, nothing is bound and checks are stateless
                        self.assert_bindings("while a coroutine created by a decorated function is suspended")
                        if obs.verdict(np.zeros((9,)), P) != "True" or obs.bindings()[0] != {}:
                            self.fail("generator-context", "a check made at top level while a decorated coroutine is suspended is not stateless")
                    self.fail("coroutine", "coroutine did not finish")
                except StopIteration as s:
                    if s.value != 7:
                        self.fail("coroutine", f"coroutine returned {s.value!r}")
            # driven at top level: every check is stateless and nothing is bound
            for i in range(0, len(record), 2):
                if record[i] != "True" or record[i + 1] != {}:
                    self.fail("generator-context", f"{kind} body driven at top level saw verdict {record[i]} / bindings {record[i + 1]}: a context was kept open or leaked")
            self.assert_bindings(f"after driving a {kind}")


def max_depth(nodes, d=1):
    out = d if nodes else 0
    for n in nodes:
        if n["op"] == "call":
            out = max(out, max_depth(n["body"], d + 1), d)
    return out


def check_program(ctx, program):
    obs.reset_state()
    it = Interp(ctx, program)
    it.assert_bindings("at program start")
    it.run(program["nodes"])
    if it.stack:
        raise AssertionError("harness: model stack not empty")
    it.assert_bindings("at program end (top level)")
    # stateless at top level: conflicting sizes both pass
    if not (isinstance(np.zeros(3), Shaped[np.ndarray, "vf_q"]) and isinstance(np.zeros(4), Shaped[np.ndarray, "vf_q"])):
        raise Violation("toplevel-stateful", program, "after the program, top-level checks with conflicting sizes do not both pass (a context was left open)")
    it.drive_pending()
    depth = max_depth(program["nodes"])
    nontrivial = depth >= 2 and bool({"conflict-after-exceptional-exit", "exceptional-exit", "exceptional-exit-base", "return-annotation-over-body-bound-name"} & it.flags
                                     or it.pending)
    ctx.note(program, nontrivial,
             classes=[f"depth-{min(depth, 5)}"] + sorted(it.flags) + [f"pending-{min(len(it.pending), 2)}"],
             sample=program)


def node_strategy(depth):
    check = st.fixed_dictionaries({"op": st.just("check"), "name": st.sampled_from(["p", "a", "b"]), "size": st.sampled_from([2, 3, 4])})
    hole = st.fixed_dictionaries({"op": st.just("hole"), "size": st.sampled_from([1, 2, 3])})
    failcheck = st.fixed_dictionaries({"op": st.just("failcheck"), "name": st.sampled_from(["p", "a", "b"]), "size": st.sampled_from([2, 3, 4])})
    gen = st.fixed_dictionaries({
        "op": st.just("gen"), "kind": st.sampled_from(["generator", "coroutine"]), "checker": st.sampled_from(["typeguard", "beartype"]),
        "psize": st.sampled_from([2, 3, 4]), "k": st.sampled_from([1, 2, 3]),
        "body": st.lists(st.fixed_dictionaries({"name": st.sampled_from(["p", "a"]), "size": st.sampled_from([2, 3, 4])}), min_size=1, max_size=3),
        "advance": st.sampled_from([True, False, False]),
        "suspend": st.sampled_from([True, False]), "ret_ann": st.sampled_from([True, False]),
    })
    if depth <= 0:
        return st.one_of(check, check, hole, gen, failcheck)
    call = st.fixed_dictionaries({
        "op": st.just("call"),
        "kind": st.sampled_from(KINDS),
        "exit": st.sampled_from(EXITS),
        "exc": st.sampled_from(sorted(EXCS)),
        "psize": st.sampled_from([2, 3, 4]),
        "k": st.sampled_from([1, 2, 3]),
        "body": st.lists(st.deferred(lambda: node_strategy(depth - 1)), max_size=4),
        "retbody": st.sampled_from([None, "axis-bad", None, "struct-bad", "axis-good", None, "struct-good", None]),
    })
    return st.one_of(call, call, call, check, check, hole, gen, failcheck)


def run(ctx):
    @given(st.fixed_dictionaries({"nodes": st.lists(node_strategy(4), min_size=1, max_size=5)}))
    def programs(program):
        check_program(ctx, program)

    ctx.hyp(programs, max_examples=ctx.n(1500, 6000))


def replay(case, clause, ctx):
    try:
        check_program(ctx, case)
    except Violation as v:
        return str(v)
    return None
