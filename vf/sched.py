"""Deterministic cooperative thread scheduler for C06.

Every worker thread installs a trace function that fires on each *line* event of frames whose code
lives under the jaxtyping package directory and calls Sched.point(); exactly one worker is runnable at
any time (the others wait on their own semaphore), so the interleaving is a pure function of the
schedule: a list of segments (thread, number of traced lines) followed by a round-robin quantum."""
from __future__ import annotations

import os
import sys
import threading

import jaxtyping

JT_DIR = os.path.dirname(os.path.abspath(jaxtyping.__file__)) + os.sep
INSIDE_CHECK = {
    "__instancecheck_str__", "__instancecheck__", "_check_shape", "_check_dims", "_check", "is_leaftype", "accepts_leaftype",
    "wrapped_fn_impl", "wrapped_fn", "get_shape_memo", "set_shape_memo", "push_shape_memo", "pop_shape_memo", "get_treepath_memo",
    "set_treepath_memo", "clear_treepath_memo", "set_treeflatten_memo", "clear_treeflatten_memo", "get_treeflatten_memo", "_get_problem_arg",
    "shape_str", "__enter__", "__exit__",
}


class Deadlock(Exception):
    pass


_tl = threading.local()
_MON_TOOL = 4


def _storage_code_objects():
    """Every code object of jaxtyping/_storage.py (the functions through which all binding / flag state is reached)."""
    import types

    from jaxtyping import _storage

    out, todo = [], [v.__code__ for v in vars(_storage).values() if isinstance(v, types.FunctionType) and v.__module__ == _storage.__name__]
    while todo:
        c = todo.pop()
        out.append(c)
        todo += [k for k in c.co_consts if isinstance(k, types.CodeType)]
    return out


def _instruction_event(code, offset):
    s, tid = getattr(_tl, "sched", None), getattr(_tl, "tid", None)
    if s is not None and tid is not None and not getattr(_tl, "finished", False):
        s.point(tid, code.co_name)


class instruction_points:
    """Context manager: while active, every bytecode instruction executed inside jaxtyping/_storage.py by a worker thread is a
    scheduling point too (sys.monitoring INSTRUCTION events; sys.settrace's opcode events do not fire on CPython 3.12.1)."""

    def __enter__(self):
        mon = sys.monitoring
        self.codes = _storage_code_objects()
        if mon.get_tool(_MON_TOOL) is None:
            mon.use_tool_id(_MON_TOOL, "vf-sched")
        mon.register_callback(_MON_TOOL, mon.events.INSTRUCTION, _instruction_event)
        for c in self.codes:
            mon.set_local_events(_MON_TOOL, c, mon.events.INSTRUCTION)
        return self

    def __exit__(self, *a):
        mon = sys.monitoring
        for c in self.codes:
            mon.set_local_events(_MON_TOOL, c, 0)
        mon.register_callback(_MON_TOOL, mon.events.INSTRUCTION, None)
        mon.free_tool_id(_MON_TOOL)


class Sched:
    def __init__(self, nthreads, segments, quantum):
        self.n = nthreads
        self.sems = [threading.Semaphore(0) for _ in range(nthreads)]
        self.done = [False] * nthreads
        self.segments = list(segments)
        self.quantum = max(1, quantum)
        self.cur = None
        self.left = 0
        self.steps = [0] * nthreads
        self.switches = []  # (from_thread, function name where it was preempted)
        self.errors = []
        self.copy_context = False

    # -- choosing who runs next ----------------------------------------------------------
    def _next(self, tid):
        while self.segments:
            t, k = self.segments.pop(0)
            t %= self.n
            if not self.done[t]:
                return t, max(1, k)
        # round robin
        for d in range(1, self.n + 1):
            t = (tid + d) % self.n
            if not self.done[t]:
                return t, self.quantum
        return None, 0

    def start(self):
        t, k = self._next(-1)
        self.cur, self.left = t, k
        self.sems[t].release()

    def point(self, tid, frame):
        self.steps[tid] += 1
        self.left -= 1
        if self.left > 0:
            return
        t, k = self._next(tid)
        if t is None or t == tid:
            self.left = k if t == tid else 10 ** 9
            return
        self.switches.append((tid, frame if isinstance(frame, str) else frame.f_code.co_name))
        self.cur, self.left = t, k
        self.sems[t].release()
        if not self.sems[tid].acquire(timeout=30):
            self.errors.append(f"thread {tid} waited >30 s to be rescheduled")
            raise Deadlock()

    def finish(self, tid):
        self.done[tid] = True
        t, k = self._next(tid)
        if t is not None:
            self.cur, self.left = t, k
            self.sems[t].release()

    # -- worker wrapper --------------------------------------------------------------------
    def worker(self, tid, fn, results):
        def local_trace(frame, event, arg):
            if event == "line":
                self.point(tid, frame)
            return local_trace

        def global_trace(frame, event, arg):
            if frame.f_code.co_filename.startswith(JT_DIR):
                return local_trace
            return None

        def run():
            if not self.sems[tid].acquire(timeout=30):
                self.errors.append(f"thread {tid} was never scheduled")
                return
            _tl.sched, _tl.tid, _tl.finished = self, tid, False
            sys.settrace(global_trace)
            try:
                results[tid] = fn()
            except Deadlock:
                results[tid] = "deadlock"
            except BaseException as e:  # noqa: BLE001
                results[tid] = f"worker raised {type(e).__name__}: {e}"
            finally:
                sys.settrace(None)
                _tl.finished = True
                self.finish(tid)

        if self.copy_context:
            # the worker runs inside a *copy of the spawning thread's context* (what asyncio.to_thread and
            # contextvars.copy_context().run do): it is still another thread
            import contextvars

            cctx = contextvars.copy_context()
            return threading.Thread(target=lambda: cctx.run(run), daemon=True, name="vf-worker")
        # (all workers carry the SAME name, as threads created with name="worker" in a loop do: a thread's name is a label, not an identity)
        return threading.Thread(target=run, daemon=True, name="vf-worker")


def run_interleaved(fns, segments, quantum, copy_context=False, instructions=False):
    """Run the callables in worker threads under the given schedule.  -> (results, sched)
    instructions=True: bytecode instructions inside jaxtyping/_storage.py are scheduling points as well."""
    if instructions:
        with instruction_points():
            return run_interleaved(fns, segments, quantum, copy_context)
    s = Sched(len(fns), segments, quantum)
    s.copy_context = copy_context
    results = [None] * len(fns)
    threads = [s.worker(i, f, results) for i, f in enumerate(fns)]
    for t in threads:
        t.start()
    s.start()
    for t in threads:
        t.join(timeout=60)
        if t.is_alive():
            s.errors.append("worker did not finish within 60 s")
    return results, s


def run_solo(fn):
    """The same callable alone on a fresh thread (no tracing)."""
    box = []
    t = threading.Thread(target=lambda: box.append(fn()), daemon=True)
    t.start()
    t.join(timeout=60)
    return box[0] if box else "solo run did not finish"
