"""Runner: tiers, seeds, sharding, known-findings, replay files, evidence, exit codes."""
from __future__ import annotations

import argparse
import collections
import importlib
import json
import os
import subprocess
import sys
import time
import traceback

from vf.core import VERIF, WORK, Ctx, HarnessError, Violation, h, jdefault


def load_known(prop):
    path = os.path.join(VERIF, "known_findings.json")
    if not os.path.exists(path):
        return []
    with open(path) as f:
        data = json.load(f)
    return [k for k in data.get("findings", []) if k["property"] == prop]


def write_replay(prop, viol):
    d = os.path.join(VERIF, "replays", prop)
    os.makedirs(d, exist_ok=True)
    body = {
        "property": prop,
        "clause": viol["clause"],
        "case": viol["case"],
        "message": viol["message"],
        "host_env": viol.get("host_env", 0),  # logging / warnings configuration of the shard that found it (runner.HOST_ENVS)
    }
    name = h({"clause": viol["clause"], "case": viol["case"]}) + ".json"
    path = os.path.join(d, name)
    with open(path, "w") as f:
        json.dump(body, f, indent=1, sort_keys=True, default=jdefault)
    return os.path.relpath(path, VERIF)


def check_repo():
    import jaxtyping

    repo = os.path.realpath(os.environ.get("VF_REPO", "/repo"))
    got = os.path.realpath(jaxtyping.__file__)
    if not got.startswith(repo + os.sep):
        raise HarnessError(f"jaxtyping imported from {got}, expected under {repo}")


HOST_ENVS = {0: "plain", 1: "jaxtyping-logger-at-DEBUG", 2: "jaxtyping-warnings-are-errors", 3: "logger-at-DEBUG+warnings-are-errors"}


def apply_host_env(mode):
    """The host application's logging / warnings configuration is part of the environment a check runs in, not of its input: a shard runs
    with the 'jaxtyping' logger enabled at DEBUG (records are formatted into a sink), with warnings attributed to jaxtyping's modules turned
    into exceptions (python -W error / pytest filterwarnings=error), with both, or with neither.  Nothing a property states may depend on it."""
    import io
    import logging
    import warnings

    if mode & 1:
        lg = logging.getLogger("jaxtyping")
        lg.setLevel(logging.DEBUG)
        h = logging.StreamHandler(io.StringIO())
        h.setFormatter(logging.Formatter("%(name)s %(message)s"))
        lg.addHandler(h)
        lg.propagate = False
    if mode & 2:
        # (warnings issued by jaxtyping itself, or on behalf of its caller -- stacklevel=2 attributes them to the harness / generated modules)
        warnings.filterwarnings("error", module=r"(jaxtyping|vf)(\.|_|$)")


def run_shard(mod, prop, tier, seed, shard, nshards):
    ctx = Ctx(prop, tier, seed, shard, nshards)
    mode = (shard + seed) % 4 if os.environ.get("VF_HOST_ENV") is None else int(os.environ["VF_HOST_ENV"])
    apply_host_env(mode)
    ctx.host_env = mode
    ctx.classes[f"host-env-{HOST_ENVS[mode]}"] += 1
    mod.run(ctx)
    return ctx


def main(argv=None):
    ap = argparse.ArgumentParser()
    ap.add_argument("prop")
    ap.add_argument("--tier", default=os.environ.get("VERIF_TIER", "quick"))
    ap.add_argument("--seed", type=int, default=None)
    ap.add_argument("--replay")
    ap.add_argument("--shard", type=int, default=None)
    ap.add_argument("--nshards", type=int, default=None)
    ap.add_argument("--out")
    args = ap.parse_args(argv)
    prop = args.prop.upper()
    tier = args.tier if args.tier in ("quick", "thorough") else "quick"
    seed = args.seed
    if seed is None:
        try:
            seed = int(os.environ.get("VERIF_SEED", "1"))
        except ValueError:
            seed = 1
    t0 = time.time()
    try:
        check_repo()
        mod = importlib.import_module(f"vf.checks.{prop.lower()}")
    except Exception:
        traceback.print_exc()
        print(f"HARNESS-ERROR property={prop} import failed")
        return 2

    # ---------------------------------------------------------------- replay mode
    if args.replay:
        with open(args.replay) as f:
            body = json.load(f)
        ctx = Ctx(prop, tier, seed)
        apply_host_env(int(body.get("host_env", 0)))
        try:
            msg = mod.replay(body["case"], body.get("clause"), ctx)
        except Violation as v:
            msg = str(v)
        except Exception:
            traceback.print_exc()
            return 2
        if msg:
            print(f"VIOLATION property={prop} replay={args.replay}")
            print("  " + str(msg)[:2000])
            return 1
        print(f"replay passed: property={prop} {args.replay}")
        return 0

    # ---------------------------------------------------------------- shard mode
    if args.shard is not None:
        try:
            ctx = run_shard(mod, prop, tier, seed, args.shard, args.nshards or 1)
        except HarnessError as e:
            print(f"HARNESS-ERROR property={prop} shard={args.shard}: {e}")
            return 2
        except Exception:
            traceback.print_exc()
            print(f"HARNESS-ERROR property={prop} shard={args.shard}")
            return 2
        with open(args.out, "w") as f:
            json.dump(ctx.partial(), f, default=jdefault)
        return 0

    # ---------------------------------------------------------------- main mode
    nshards = mod.SHARDS.get(tier, 1) if hasattr(mod, "SHARDS") else 1
    if "VF_SHARDS" in os.environ:
        nshards = int(os.environ["VF_SHARDS"])
    parts = []
    harness_errors = []
    if nshards <= 1:
        try:
            ctx = run_shard(mod, prop, tier, seed, 0, 1)
            parts.append(ctx.partial())
        except HarnessError as e:
            harness_errors.append(str(e))
        except Exception:
            harness_errors.append(traceback.format_exc())
    else:
        wd = os.path.join(WORK, prop, f"{tier}-{seed}-{os.getpid()}")
        os.makedirs(wd, exist_ok=True)
        procs = []
        for i in range(nshards):
            out = os.path.join(wd, f"shard-{i}.json")
            log = open(os.path.join(wd, f"shard-{i}.log"), "w")
            p = subprocess.Popen(
                [sys.executable, "-W", "ignore", "-m", "vf.runner", prop, "--tier", tier,
                 "--seed", str(seed), "--shard", str(i), "--nshards", str(nshards),
                 "--out", out],
                stdout=log, stderr=subprocess.STDOUT, cwd=VERIF,
            )
            procs.append((p, out, log))
        for p, out, log in procs:
            rc = p.wait()
            log.close()
            if rc != 0 or not os.path.exists(out):
                with open(log.name) as f:
                    harness_errors.append(f"shard rc={rc}: " + f.read()[-3000:])
            else:
                with open(out) as f:
                    parts.append(json.load(f))
        if not harness_errors:
            import shutil

            shutil.rmtree(wd, ignore_errors=True)

    # merge
    evaluations = sum(p["evaluations"] for p in parts)
    nontrivial = set()
    classes = collections.Counter()
    samples = []
    violations = []
    extra = {}
    excluded = 0
    inconclusive = []
    for p in parts:
        nontrivial.update(p["nontrivial"])
        classes.update(p["classes"])
        samples.extend(p["samples"])
        violations.extend(p["violations"])
        excluded += p["excluded_known"]
        inconclusive.extend(p["inconclusive"])
        for k, v in p["extra"].items():
            if isinstance(v, (int, float)) and not isinstance(v, bool):
                extra[k] = extra.get(k, 0) + v
            elif isinstance(v, list):
                extra.setdefault(k, [])
                extra[k].extend(v)
                extra[k] = extra[k][:12]
            else:
                extra[k] = v
    if len(samples) > 10:
        step = len(samples) / 10
        samples = [samples[int(i * step)] for i in range(10)]

    # known findings: replayed explicitly, so that the generators can exclude them
    known_lines = []
    known = load_known(prop)
    kctx = Ctx(prop, tier, seed)
    for k in known:
        try:
            with open(os.path.join(VERIF, k["replay"])) as f:
                body = json.load(f)
            try:
                msg = mod.replay(body["case"], body.get("clause"), kctx)
            except Violation as v:
                msg = str(v)
            if msg:
                known_lines.append(f"KNOWN-FINDING: property={prop} {k['what']}")
        except Exception:
            harness_errors.append("known-finding replay failed: " + traceback.format_exc())

    # a violation found by search that matches a listed finding is that finding, not a new one
    fresh = []
    for v in violations:
        matched = False
        if hasattr(mod, "finding_key"):
            try:
                key = mod.finding_key(v["case"], v["clause"])
            except Exception:
                key = None
            for k in known:
                if key is not None and key == k.get("key"):
                    matched = True
                    line = f"KNOWN-FINDING: property={prop} {k['what']}"
                    if line not in known_lines:
                        known_lines.append(line)
        if not matched:
            fresh.append(v)

    wall = time.time() - t0
    level = getattr(mod, "LEVEL", "exploration")
    coverage = {
        "evaluations": evaluations,
        "distinct_nontrivial": len(nontrivial),
        "rule": getattr(mod, "RULE", ""),
        "samples": samples,
        "class_histogram": dict(sorted(classes.items())),
        "excluded_known": excluded,
        "shards": nshards,
    }
    if inconclusive:
        coverage["inconclusive"] = inconclusive[:20]
    coverage.update(extra)
    if hasattr(mod, "coverage_extra"):
        coverage.update(mod.coverage_extra(coverage))
    ev = {
        "property_id": prop,
        "tier": tier,
        "seed": seed,
        "level": level,
        "coverage": coverage,
        "assumptions": list(getattr(mod, "ASSUMPTIONS", [])),
        "wall_s": round(wall, 2),
        "violations": len(fresh),
    }
    if harness_errors:
        for e in harness_errors:
            print("HARNESS-ERROR", e[:4000])
        print(f"HARNESS-ERROR property={prop}: check did not complete; no verdict")
        return 2
    os.makedirs(os.path.join(VERIF, "evidence"), exist_ok=True)
    with open(os.path.join(VERIF, "evidence", f"{prop}.json"), "w") as f:
        json.dump(ev, f, indent=1, default=jdefault)
        f.write("\n")
    for line in known_lines:
        print(line)
    print(
        f"property={prop} tier={tier} seed={seed} evaluations={evaluations} "
        f"distinct_nontrivial={len(nontrivial)} violations={len(fresh)} wall={wall:.1f}s"
    )
    if fresh:
        seen = set()
        for v in fresh:
            path = write_replay(prop, v)
            if path in seen:
                continue
            seen.add(path)
            print(f"VIOLATION property={prop} replay={path}")
            print(f"  clause={v['clause']} {v['message'][:1500]}")
        return 1
    return 0


if __name__ == "__main__":
    rc = main()
    # Checks inject KeyboardInterrupt into code that jaxtyping runs through eval(<str>); CPython then
    # remembers an "unhandled KeyboardInterrupt" and would turn the exit status into 130.  Reset that
    # flag (a successful eval of a string clears it) and leave without running third-party atexit hooks.
    eval("0")
    sys.stdout.flush()
    sys.stderr.flush()
    os._exit(rc)
