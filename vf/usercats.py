"""User-defined dtype categories importable by name (C20) and the duck array class used in pickled annotations."""
import re

from jaxtyping import AbstractDtype


class UInt8or16(AbstractDtype):
    dtypes = ["uint8", "uint16"]


class FloatRe(AbstractDtype):
    dtypes = re.compile("float(16|32)")


class Mixed(AbstractDtype):
    dtypes = ("int8", re.compile("complex.*"))


class Encoder:
    """categories defined in a class body: importable by their qualified name (Encoder.Dt), which is how pickle refers to them"""

    class Dt(AbstractDtype):
        dtypes = ["float16", "float32"]


class Decoder:
    class Dt(AbstractDtype):  # same bare name, other dtypes, defined later
        dtypes = ["int8", "uint8"]


class DuckArr:
    def __init__(self, shape, dtype):
        self.shape = tuple(shape)
        self.dtype = dtype


class Backend:
    """an array class defined inside another class: importable by its qualified name (Backend.Tensor)"""

    class Tensor(DuckArr):
        pass
