"""User-defined dtype categories importable by name (C20) and the duck array class used in pickled annotations."""
import re

from jaxtyping import AbstractDtype


class UInt8or16(AbstractDtype):
    dtypes = ["uint8", "uint16"]


class FloatRe(AbstractDtype):
    dtypes = re.compile("float(16|32)")


class Mixed(AbstractDtype):
    dtypes = ("int8", re.compile("complex.*"))


class DuckArr:
    def __init__(self, shape, dtype):
        self.shape = tuple(shape)
        self.dtype = dtype
