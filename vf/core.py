"""Core: Ctx (accounting + Hypothesis driver), Violation, helpers.  Runner semantics:

Contract (see DESIGN.md §2):
  exit 0  property held on everything explored (KNOWN-FINDING lines allowed)
  exit 1  + line "VIOLATION property=<id> replay=<path>" for every violation not listed
  exit 2  harness error (never reported as a violation)
"""
from __future__ import annotations

import argparse
import collections
import hashlib
import importlib
import json
import os
import subprocess
import sys
import time
import traceback

VERIF = os.path.dirname(os.path.dirname(os.path.abspath(__file__)))
WORK = os.path.join(VERIF, ".work")


class Violation(Exception):
    """Raised by a check when the oracle disagrees with the code under test."""

    def __init__(self, clause: str, case, message: str = ""):
        super().__init__(f"[{clause}] {message}")
        self.clause = clause
        self.case = case
        self.message = message


class HarnessError(Exception):
    pass


def jdefault(o):
    if isinstance(o, (set, frozenset)):
        return sorted(o, key=repr)
    if isinstance(o, tuple):
        return list(o)
    if isinstance(o, bytes):
        return o.decode("latin1")
    return repr(o)


def canon(x) -> str:
    return json.dumps(x, sort_keys=True, default=jdefault)


def h(x) -> str:
    return hashlib.sha1(canon(x).encode()).hexdigest()[:16]


class Ctx:
    def __init__(self, prop, tier, seed, shard=0, nshards=1):
        self.prop = prop
        self.tier = tier
        self.seed = seed
        self.shard = shard
        self.nshards = nshards
        self.evaluations = 0
        self.nontrivial = set()
        self.classes = collections.Counter()
        self.samples = []
        self.violations = []  # dicts {clause, case, message}
        self.extra = {}
        self.excluded_known = 0
        self.inconclusive = []
        self.t0 = time.time()
        self.scale = float(os.environ.get("VF_SCALE", "1"))

    # -- sizes -------------------------------------------------------------------
    def n(self, quick: int, thorough: int) -> int:
        base = quick if self.tier == "quick" else thorough
        return max(1, int(base * self.scale))

    @property
    def hyp_seed(self) -> int:
        return self.seed * 1000 + self.shard

    # -- accounting --------------------------------------------------------------
    def note(self, key, nontrivial: bool, classes=(), sample=None):
        self.evaluations += 1
        for c in classes:
            self.classes[c] += 1
        if nontrivial:
            hk = h(key)
            new = hk not in self.nontrivial
            self.nontrivial.add(hk)
            if new and sample is not None and len(self.samples) < 8:
                # spread the samples over the run instead of taking the first eight
                if len(self.nontrivial) in (1, 2, 5, 11, 23, 47, 95, 191, 383):
                    self.samples.append(sample)
        elif sample is not None and not self.samples and self.evaluations > 50:
            pass

    def violation(self, clause, case, message=""):
        raise Violation(clause, case, message)

    def record(self, v: Violation):
        self.violations.append(
            {"clause": v.clause, "case": v.case, "message": v.message, "host_env": getattr(self, "host_env", 0)}
        )

    # -- hypothesis driver -----------------------------------------------------
    def hyp(self, test, *, max_examples, name=None, shrink=True, stateful_steps=None):
        """Run a @given-decorated test (or a RuleBasedStateMachine class).

        Every random choice comes from Hypothesis seeded with hyp_seed; a Violation raised
        by the test is shrunk by Hypothesis and recorded; other exceptions are harness
        errors (exit 2)."""
        import hypothesis
        from hypothesis import HealthCheck, Phase, settings
        from hypothesis.stateful import RuleBasedStateMachine, run_state_machine_as_test

        phases = [Phase.explicit, Phase.generate, Phase.target]
        if shrink:
            phases.append(Phase.shrink)
        kw = dict(
            max_examples=max_examples,
            deadline=None,
            database=None,
            derandomize=False,
            report_multiple_bugs=False,
            phases=phases,
            suppress_health_check=[HealthCheck.too_slow, HealthCheck.data_too_large],
            print_blob=False,
        )
        if stateful_steps is not None:
            kw["stateful_step_count"] = stateful_steps
        st = settings(**kw)
        label = name or getattr(test, "__name__", str(test))
        try:
            if isinstance(test, type) and issubclass(test, RuleBasedStateMachine):
                run_state_machine_as_test(hypothesis.seed(self.hyp_seed)(test), settings=st)
            else:
                hypothesis.seed(self.hyp_seed)(st(test))()
        except Violation as v:
            self.record(v)
        except hypothesis.errors.FailedHealthCheck as e:
            raise HarnessError(f"{label}: generator health check failed: {e}") from e
        except hypothesis.errors.Flaky as e:
            # The test behaved differently when Hypothesis replayed an input.  If the differing outcomes are
            # oracle Violations, the code under test carries state from one case to the next (the harness resets
            # everything it knows about between cases): that is reported as a violation, flagged as
            # history-dependent.  Anything else is a harness error.
            if isinstance(e, BaseExceptionGroup):  # noqa: F821
                self._record_group(label, e, flaky=True)
            else:
                raise HarnessError(f"{label}: flaky under replay: {e}") from e
        except BaseExceptionGroup as eg:  # noqa: F821  (py3.11+)
            self._record_group(label, eg)
        except Exception as e:  # noqa: BLE001
            # An exception raised by Hypothesis' own shrinker (seen: 'ValueError: 42 is not in list' while shrinking a text drawn from a
            # small alphabet) hides the failure it was shrinking.  Run the same seeded search again without the shrink phase: the
            # unshrunk Violation is recorded instead.  Anything raised by the test itself stays a harness error.
            import traceback

            tb = traceback.extract_tb(e.__traceback__)
            if shrink and tb and "/hypothesis/" in tb[-1].filename.replace("\\", "/"):
                return self.hyp(test, max_examples=max_examples, shrink=False, stateful_steps=stateful_steps, name=name)
            raise

    def _record_group(self, label, eg, flaky=False):
        vs = []

        def walk(g):
            for e in g.exceptions:
                if isinstance(e, Violation):
                    vs.append(e)
                elif isinstance(e, BaseExceptionGroup):  # noqa: F821
                    walk(e)

        walk(eg)
        if not vs:
            raise HarnessError(f"{label}: {eg!r}") from eg
        for v in vs[:1] if flaky else vs:
            if flaky:
                v = Violation(v.clause, v.case, v.message + " [history-dependent: outcome changed when the same input was replayed, "
                              "i.e. the code under test carried state over from earlier cases]")
            self.record(v)

    def partial(self):
        return {
            "evaluations": self.evaluations,
            "nontrivial": sorted(self.nontrivial),
            "classes": dict(self.classes),
            "samples": self.samples,
            "violations": self.violations,
            "extra": self.extra,
            "excluded_known": self.excluded_known,
            "inconclusive": self.inconclusive,
        }


